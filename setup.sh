#!/bin/sh
# Build the symbolic engine from files on disk (offline).
set -e
cd "$(dirname "$0")"
. ./env.sh
mkdir -p bin
cd engine && go build -o ../bin/vsym ./cmd/vsym
