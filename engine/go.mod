module vsym

go 1.23

require golang.org/x/tools v0.29.0

require github.com/klauspost/cpuid/v2 v2.0.12 // indirect

require (
	github.com/fxamacker/circlehash v0.3.0
	github.com/zeebo/blake3 v0.2.4
	golang.org/x/mod v0.22.0 // indirect
	golang.org/x/sync v0.10.0 // indirect
)
