package main

import (
	"encoding/json"
	"fmt"
	"os"
	"os/exec"
	"path/filepath"
	"sort"
	"strings"
	"time"

	vexec "vsym/exec"
)

type replayCase struct {
	Harness string           `json:"harness"`
	Vector  []vexec.VecEntry `json:"vector"`
	Params  map[string]int   `json:"params"`
	// informational
	Property string `json:"property,omitempty"`
	Label    string `json:"label,omitempty"`
	Kind     string `json:"kind,omitempty"`
	Pos      string `json:"pos,omitempty"`
}

type nativeOutcome struct {
	Harness      string      `json:"harness"`
	Failed       []string    `json:"failed"`
	Panic        string      `json:"panic"`
	AssumeFailed bool        `json:"assume_failed"`
	Mismatch     string      `json:"mismatch"`
	Observed     []vexec.Obs `json:"observed"`
	Reached      []string    `json:"reached"`
	Unused       int         `json:"unused_vector_entries"`
	AllocBytes   uint64      `json:"alloc_bytes"`
}

type knownFinding struct {
	Property  string            `json:"property"`
	Status    string            `json:"status"` // known | fixed
	Harness   string            `json:"harness"`
	Label     string            `json:"label"`
	LabelPrefix string          `json:"label_prefix,omitempty"`
	VectorHas map[string]uint64 `json:"vector_has,omitempty"`
	Commit    string            `json:"commit,omitempty"`
	Text      string            `json:"text"`
}

type nativeRunner struct {
	raceBin   string
	raceBuilt bool
	raceErr   error
	ovf    string
	tmp    string
	bin    string
	built  bool
	err    error
	eng    *vexec.Engine
	verif  string
	buildS float64
}

func (n *nativeRunner) build() error {
	if n.built {
		return n.err
	}
	n.built = true
	t0 := time.Now()
	ov, err := vexec.OverlayFiles(n.eng.Opt.RepoDir, n.eng.Opt.HarnessDir, true)
	if err != nil {
		n.err = err
		return err
	}
	// registry
	var sb strings.Builder
	sb.WriteString("//go:build verif\n\npackage atree\n\nvar vhRegistry = map[string]func(){\n")
	for _, h := range n.eng.Harnesses {
		fmt.Fprintf(&sb, "\t%q: %s,\n", h.Name, h.Name)
	}
	sb.WriteString("}\n")
	reg := filepath.Join(n.tmp, "registry_test.go")
	if err := os.WriteFile(reg, []byte(sb.String()), 0o644); err != nil {
		n.err = err
		return err
	}
	ov[filepath.Join(n.eng.Opt.RepoDir, "zz_vh_registry_test.go")] = reg
	ovj, _ := json.Marshal(map[string]interface{}{"Replace": ov})
	ovf := filepath.Join(n.tmp, "overlay.json")
	os.WriteFile(ovf, ovj, 0o644)
	n.ovf = ovf
	n.bin = filepath.Join(n.tmp, "vh.test")
	cmd := exec.Command("go", "test", "-c", "-tags", "verif", "-vet=off", "-overlay", ovf, "-o", n.bin, ".")
	cmd.Dir = n.eng.Opt.RepoDir
	cmd.Env = vexec.GoEnv()
	out, err := cmd.CombinedOutput()
	n.buildS = time.Since(t0).Seconds()
	if err != nil {
		n.err = fmt.Errorf("native harness build failed: %v\n%s", err, out)
	}
	return n.err
}

// buildRace builds the replay binary with the Go race detector.
func (n *nativeRunner) buildRace() error {
	if err := n.build(); err != nil {
		return err
	}
	if n.raceBuilt {
		return n.raceErr
	}
	n.raceBuilt = true
	n.raceBin = filepath.Join(n.tmp, "vh.race.test")
	cmd := exec.Command("go", "test", "-c", "-race", "-tags", "verif", "-vet=off", "-overlay", n.ovf, "-o", n.raceBin, ".")
	cmd.Dir = n.eng.Opt.RepoDir
	cmd.Env = append(vexec.GoEnv(), "CGO_ENABLED=1")
	out, err := cmd.CombinedOutput()
	if err != nil {
		n.raceErr = fmt.Errorf("race-enabled harness build failed: %v\n%s", err, out)
	}
	return n.raceErr
}

// runScheduleDependent replays one case repeatedly (race detector on) and
// reports what the native runs showed: a data race, a deadlock/timeout, or a
// failed assertion with the given label.
func (n *nativeRunner) runScheduleDependent(c replayCase, label string, runs int) (race bool, deadlock bool, failed bool, err error) {
	if err := n.buildRace(); err != nil {
		return false, false, false, err
	}
	in := filepath.Join(n.tmp, fmt.Sprintf("sin-%d.json", time.Now().UnixNano()))
	out := in + ".out"
	b, _ := json.Marshal([]replayCase{c})
	os.WriteFile(in, b, 0o644)
	defer os.Remove(in)
	defer os.Remove(out)
	procs := []string{"1", "2", "4", "16"}
	for i := 0; i < runs; i++ {
		cmd := exec.Command(n.raceBin, "-test.run", "^TestVHReplay$", "-test.count=1", "-test.timeout=20s")
		cmd.Dir = n.eng.Opt.RepoDir
		cmd.Env = append(os.Environ(), "VH_REPLAY_IN="+in, "VH_REPLAY_OUT="+out, "GOMAXPROCS="+procs[i%len(procs)])
		o, rerr := cmd.CombinedOutput()
		so := string(o)
		if strings.Contains(so, "DATA RACE") {
			return true, false, false, nil
		}
		if strings.Contains(so, "all goroutines are asleep") || strings.Contains(so, "test timed out") {
			return false, true, false, nil
		}
		if rerr == nil {
			if ob, e := os.ReadFile(out); e == nil {
				var outs []nativeOutcome
				if json.Unmarshal(ob, &outs) == nil && len(outs) == 1 {
					for _, f := range outs[0].Failed {
						if f == label {
							return false, false, true, nil
						}
					}
				}
			}
		}
	}
	return false, false, false, nil
}

func (n *nativeRunner) run(cases []replayCase) ([]nativeOutcome, error) {
	if err := n.build(); err != nil {
		return nil, err
	}
	in := filepath.Join(n.tmp, fmt.Sprintf("in-%d.json", time.Now().UnixNano()))
	out := in + ".out"
	b, _ := json.Marshal(cases)
	os.WriteFile(in, b, 0o644)
	cmd := exec.Command(n.bin, "-test.run", "^TestVHReplay$", "-test.count=1", "-test.timeout=600s")
	cmd.Dir = n.eng.Opt.RepoDir
	cmd.Env = append(os.Environ(), "VH_REPLAY_IN="+in, "VH_REPLAY_OUT="+out)
	o, err := cmd.CombinedOutput()
	if err != nil {
		return nil, fmt.Errorf("native replay run failed: %v\n%s", err, o)
	}
	ob, err := os.ReadFile(out)
	if err != nil {
		return nil, err
	}
	var outs []nativeOutcome
	if err := json.Unmarshal(ob, &outs); err != nil {
		return nil, err
	}
	os.Remove(in)
	os.Remove(out)
	return outs, nil
}

func loadKnown(verif string) []knownFinding {
	b, err := os.ReadFile(filepath.Join(verif, "known_findings.json"))
	if err != nil {
		return nil
	}
	var k []knownFinding
	if err := json.Unmarshal(b, &k); err != nil {
		fmt.Fprintln(os.Stderr, "known_findings.json:", err)
		os.Exit(2)
	}
	return k
}

func matchKnown(known []knownFinding, prop string, v vexec.Violation) *knownFinding {
	for i := range known {
		k := &known[i]
		if k.Status != "known" || k.Harness != v.Harness {
			continue
		}
		if k.LabelPrefix != "" {
			if !strings.HasPrefix(v.Label, k.LabelPrefix) {
				continue
			}
		} else if k.Label != v.Label {
			continue
		}
		ok := true
		for name, want := range k.VectorHas {
			found := false
			for _, e := range v.Vector {
				if e.Name == name && e.Val == want {
					found = true
				}
			}
			if !found {
				ok = false
			}
		}
		if ok {
			return k
		}
	}
	return nil
}

// crossSolver replays the recorded transcript of one worker on cvc5 and
// compares the verdict sequence with z3's.
func crossSolver(path string, bv bool) (compared, disagreements, skipped int, note string) {
	b, err := os.ReadFile(path)
	if err != nil {
		return 0, 0, 0, "no transcript"
	}
	var z3v []string
	var sb strings.Builder
	sb.WriteString("(set-logic ALL)\n")
	// cvc5's parser scopes declarations with push/pop: hoist them to the top
	seenDecl := map[string]bool{}
	for _, line := range strings.Split(string(b), "\n") {
		if strings.HasPrefix(line, "(declare-const") && !seenDecl[line] {
			seenDecl[line] = true
			sb.WriteString(line)
			sb.WriteByte('\n')
		}
	}
	for _, line := range strings.Split(string(b), "\n") {
		switch {
		case strings.HasPrefix(line, "(declare-const"):
		case strings.HasPrefix(line, ";; verdict "):
			z3v = append(z3v, strings.TrimPrefix(line, ";; verdict "))
		case strings.HasPrefix(line, "(set-option"):
		case strings.HasPrefix(line, "(get-value"):
		case strings.HasPrefix(line, ";;"):
		default:
			sb.WriteString(line)
			sb.WriteByte('\n')
		}
	}
	in := strings.TrimSuffix(path, ".smt2") + ".cvc5.smt2"
	os.WriteFile(in, []byte(sb.String()), 0o644)
	defer os.Remove(in)
	cmd := exec.Command("timeout", "600", "cvc5", "--incremental", "--global-declarations", "--fp-exp", "--tlimit-per=10000", "-q", in)
	out, _ := cmd.CombinedOutput()
	var cv []string
	for _, line := range strings.Split(string(out), "\n") {
		line = strings.TrimSpace(line)
		if line == "sat" || line == "unsat" || line == "unknown" {
			cv = append(cv, line)
		}
	}
	n := len(z3v)
	if len(cv) < n {
		skipped = n - len(cv)
		n = len(cv)
	}
	for i := 0; i < n; i++ {
		a, c := z3v[i], cv[i]
		if a == "unknown" || a == "error" || c == "unknown" {
			skipped++
			continue
		}
		compared++
		if a != c {
			disagreements++
			if note == "" {
				note = fmt.Sprintf("query %d: z3 %s, cvc5 %s", i, a, c)
			}
		}
	}
	return
}

func tierOK(h *vexec.Harness, tier string) bool {
	switch h.Tier {
	case "":
		return true
	case "thorough":
		return tier == "thorough"
	case "quick":
		return tier == "quick"
	}
	return true
}

func hasProp(h *vexec.Harness, prop string) bool {
	for _, p := range h.Props {
		if p == prop {
			return true
		}
	}
	return false
}

func runCheck(opt vexec.Options, prop string, seed int64, verif string) int {
	t0 := time.Now()
	eng, err := vexec.Load(opt)
	if err != nil {
		fmt.Println(err)
		fmt.Println("INCONCLUSIVE: harness does not build against this tree (not a violation)")
		writeBrokenEvidence(verif, prop, opt.Tier, seed, err.Error(), time.Since(t0).Seconds())
		return 2
	}
	var hs []*vexec.Harness
	for _, h := range eng.Harnesses {
		if hasProp(h, prop) && tierOK(h, opt.Tier) {
			hs = append(hs, h)
		}
	}
	if len(hs) == 0 {
		fmt.Printf("no harness serves property %s\n", prop)
		return 2
	}
	tmp, err := os.MkdirTemp("", "vsym.")
	if err != nil {
		fmt.Println(err)
		return 2
	}
	defer os.RemoveAll(tmp)
	nr := &nativeRunner{tmp: tmp, eng: eng, verif: verif}
	crossDir := ""
	if opt.Tier == "thorough" || os.Getenv("VSYM_CROSSCHECK") != "" {
		crossDir = filepath.Join(tmp, "cross")
		os.MkdirAll(crossDir, 0o755)
		eng.Opt.CrossCheck = crossDir
	}
	crossCompared, crossDisagree, crossSkipped := 0, 0, 0
	known := loadKnown(verif)
	replayDir := filepath.Join(outDir(verif), "replays", prop)
	os.RemoveAll(replayDir)

	broken := []string{}
	inconclusive := []string{}
	violations := 0
	knownHits := 0
	knownPrinted := map[string]bool{}
	var results []*vexec.HarnessResult
	funcs := map[string]int64{}
	stubs := map[string]int{}
	lemmas := map[string]int{}
	var samples []interface{}
	validated, validationFailures := 0, 0
	var totPaths, totDec, totAsserts, totTriv, totSteps int64
	var solverS float64
	qSat, qUnsat, qUnk, qErr := 0, 0, 0, 0
	qKilled := 0
	boundHits := map[string]int{}
	unsupported := map[string]int{}
	witnesses := map[string]int{}
	harnessSummaries := []map[string]interface{}{}

	for _, h := range hs {
		r, err := eng.RunHarness(h)
		if err != nil {
			fmt.Println("engine error:", err)
			return 2
		}
		results = append(results, r)
		totPaths += int64(r.Paths)
		totDec += r.Decisions
		totAsserts += r.Asserts
		totTriv += r.TrivAsserts
		totSteps += r.Steps
		solverS += r.Solver.Time.Seconds()
		qSat += r.Solver.Sat
		qUnsat += r.Solver.Unsat
		qUnk += r.Solver.Unknown
		qKilled += r.Solver.Killed
		qErr += r.Solver.Errors
		for k, v := range r.Funcs {
			funcs[k] += v
		}
		for k, v := range r.Stubs {
			stubs[k] += v
		}
		for k, v := range r.Lemmas {
			lemmas[k] += v
		}
		for k, v := range r.BoundHits {
			boundHits[h.Name+": "+k] += v
		}
		for k, v := range r.Unsupported {
			unsupported[h.Name+": "+k] += v
		}
		for k, v := range r.Reach {
			witnesses[h.Name+"/"+k] += v
		}
		fmt.Printf("%-40s paths=%d infeasible=%d decisions=%d obligations=%d(+%d folded) violations=%d steps=%d wall=%.1fs solver=%.1fs\n",
			h.Name, r.Paths, r.Infeasible, r.Decisions, r.Asserts, r.TrivAsserts, len(r.ViolCount), r.Steps, r.Wall.Seconds(), r.Solver.Time.Seconds())
		harnessSummaries = append(harnessSummaries, map[string]interface{}{
			"harness": h.Name, "paths": r.Paths, "infeasible_paths": r.Infeasible, "decisions": r.Decisions,
			"obligations_discharged_unsat": r.Asserts, "obligations_folded_true": r.TrivAsserts,
			"wall_s": r.Wall.Seconds(), "max_decision_depth": r.MaxDepth, "params": h.Params})
		for k, v := range r.Unsupported {
			fmt.Printf("  INCONCLUSIVE: unsupported construct x%d: %s\n", v, firstLine(k))
			inconclusive = append(inconclusive, h.Name+": "+firstLine(k))
		}
		for _, s := range r.Inconclusive {
			inconclusive = append(inconclusive, h.Name+": "+s)
		}
		for k, v := range r.BoundHits {
			fmt.Printf("  BOUND-HIT x%d: %s\n", v, k)
		}

		if crossDir != "" {
			c, d, sk, note := crossSolver(filepath.Join(crossDir, h.Name+".smt2"), h.ModeBV)
			crossCompared += c
			crossDisagree += d
			crossSkipped += sk
			if d > 0 {
				broken = append(broken, fmt.Sprintf("%s: z3 and cvc5 disagree on %d of %d replayed queries (%s)", h.Name, d, c, note))
			}
			fmt.Printf("  cross-solver: %d queries replayed on cvc5, %d disagreements, %d skipped (unknown/timeout)\n", c, d, sk)
		}
		// expected-violation twins (vacuity guards)
		if strings.HasPrefix(h.Expect, "violation") {
			if len(r.ViolCount) == 0 {
				broken = append(broken, fmt.Sprintf("%s: vacuity twin did not report its expected violation", h.Name))
			}
			continue
		}
		// vacuity: at least one witness reached or one completed path
		if len(r.Reach) == 0 && len(r.ViolCount) == 0 && len(r.Unsupported) == 0 {
			broken = append(broken, fmt.Sprintf("%s: no reachability witness was satisfiable (vacuous harness)", h.Name))
		}

		// translator validation of sampled paths
		if len(r.Samples) > 0 {
			var cases []replayCase
			for _, s := range r.Samples {
				cases = append(cases, replayCase{Harness: h.Name, Vector: s.Vector, Params: mergedParams(opt, h)})
			}
			outs, err := nr.run(cases)
			if err != nil {
				broken = append(broken, fmt.Sprintf("%s: native validation could not run: %v", h.Name, firstLine(err.Error())))
				fmt.Println(err)
			} else {
				for i, o := range outs {
					s := r.Samples[i]
					msg := compareSample(s, o)
					if msg != "" {
						validationFailures++
						if validationFailures <= 5 {
							fmt.Printf("  ENGINE-MISMATCH %s: %s (vector %v)\n", h.Name, msg, s.Vector)
						}
					} else {
						validated++
					}
				}
			}
			for i, s := range r.Samples {
				if i < 2 {
					samples = append(samples, s)
				}
			}
		}

		// violations: replay natively, match against known findings
		labels := []string{}
		for k := range r.ViolCount {
			labels = append(labels, k)
		}
		sort.Strings(labels)
		nfile := 0
		for _, v := range r.Violations {
			if v.Kind == "model" {
				msg := fmt.Sprintf("%s: the harness's model of the code does not hold on this tree: %q (%v) -- not a violation claim", h.Name, v.Label, v.Vector)
				dup := false
				for _, b := range broken {
					if strings.HasPrefix(b, h.Name+": the harness's model") && strings.Contains(b, v.Label) {
						dup = true
					}
				}
				if !dup {
					broken = append(broken, msg)
				}
				continue
			}
			rc := replayCase{Harness: h.Name, Vector: v.Vector, Params: mergedParams(opt, h), Property: prop, Label: v.Label, Kind: v.Kind, Pos: v.Pos}
			var o nativeOutcome
			reproduced := false
			if v.Kind == "race" || v.Kind == "deadlock" {
				race, dl, _, err := nr.runScheduleDependent(rc, v.Label, 12)
				if err != nil {
					broken = append(broken, fmt.Sprintf("%s: native race replay could not run: %v", h.Name, firstLine(err.Error())))
					fmt.Println(err)
					continue
				}
				reproduced = (v.Kind == "race" && race) || (v.Kind == "deadlock" && dl)
				if race {
					o.Panic = "DATA RACE reported by the Go race detector"
				}
				if dl {
					o.Panic = "deadlock / timeout in native run"
				}
			} else {
				outs, err := nr.run([]replayCase{rc})
				if err != nil {
					broken = append(broken, fmt.Sprintf("%s: native replay could not run: %v", h.Name, firstLine(err.Error())))
					fmt.Println(err)
					continue
				}
				o = outs[0]
				// The native run iterates Go maps in the runtime's random order while the
				// engine's path fixed one order: a counterexample that depends on map
				// iteration order is replayed by repetition before it is called a mismatch.
				for try := 0; try < 24 && !nativeShows(v, o); try++ {
					outs, err = nr.run([]replayCase{rc})
					if err != nil {
						break
					}
					o = outs[0]
				}
			}
			if !reproduced && v.Kind == "assert" && usesSchedule(v) {
				// schedule-dependent assertion: replay by repetition
				found := false
				for _, f := range o.Failed {
					if f == v.Label {
						found = true
					}
				}
				if !found {
					_, _, failed, err := nr.runScheduleDependent(rc, v.Label, 200)
					if err == nil && failed {
						reproduced = true
						o.Failed = append(o.Failed, v.Label)
					}
				}
			}
			switch v.Kind {
			case "assert":
				for _, f := range o.Failed {
					if f == v.Label {
						reproduced = true
					}
				}
			case "panic":
				reproduced = o.Panic != ""
			}
			if !reproduced && nativeShows(v, o) {
				reproduced = true
			}
			if !reproduced && (v.Kind == "race" || v.Kind == "deadlock" || usesSchedule(v)) {
				fmt.Printf("UNCONFIRMED property=%s harness=%s %q: found under a modelled goroutine schedule, not reproduced by native repetition (race detector on)\n", prop, h.Name, v.Label)
				inconclusive = append(inconclusive, fmt.Sprintf("%s: schedule-dependent counterexample for %q not reproduced natively", h.Name, v.Label))
				os.MkdirAll(replayDir, 0o755)
				ub, _ := json.MarshalIndent([]replayCase{rc}, "", " ")
				os.WriteFile(filepath.Join(replayDir, fmt.Sprintf("unconfirmed-%s-%d.json", h.Name, len(inconclusive))), ub, 0o644)
				continue
			}
			if !reproduced {
				fmt.Printf("  ENGINE-MISMATCH %s: counterexample for %q did not reproduce natively (native: failed=%v panic=%q assume_failed=%v mismatch=%q)\n",
					h.Name, v.Label, o.Failed, o.Panic, o.AssumeFailed, o.Mismatch)
				broken = append(broken, fmt.Sprintf("%s: counterexample for %q did not reproduce natively", h.Name, v.Label))
				continue
			}
			if k := matchKnown(known, prop, v); k != nil {
				if !knownPrinted[k.Text] {
					knownPrinted[k.Text] = true
					fmt.Printf("KNOWN-FINDING: property=%s %s\n", prop, k.Text)
				}
				knownHits++
				continue
			}
			os.MkdirAll(replayDir, 0o755)
			nfile++
			p := filepath.Join(replayDir, fmt.Sprintf("%s-%d.json", h.Name, nfile))
			b, _ := json.MarshalIndent([]replayCase{rc}, "", " ")
			os.WriteFile(p, b, 0o644)
			fmt.Printf("VIOLATION property=%s replay=%s\n", prop, p)
			fmt.Printf("  harness=%s label=%q at %s (%d paths), native: failed=%v panic=%q\n", h.Name, v.Label, v.Pos, r.ViolCount[v.Label], o.Failed, o.Panic)
			violations++
		}
	}
	if validationFailures > 0 {
		broken = append(broken, fmt.Sprintf("%d sampled paths disagree between engine and native execution", validationFailures))
	}

	// evidence
	type kv struct {
		K string
		V int64
	}
	var fl []kv
	for k, v := range funcs {
		fl = append(fl, kv{k, v})
	}
	sort.Slice(fl, func(i, j int) bool { return fl[i].V > fl[j].V })
	fenc := []map[string]interface{}{}
	repoFns := 0
	for _, f := range fl {
		if strings.Contains(f.K, "onflow/atree") && !strings.Contains(f.K, ".vh") && !strings.Contains(f.K, ".VH_") && !strings.Contains(f.K, ".vElem") {
			repoFns++
		}
		if len(fenc) < 60 {
			fenc = append(fenc, map[string]interface{}{"fn": f.K, "instructions": f.V})
		}
	}
	if fd := os.Getenv("VSYM_FNDUMP"); fd != "" {
		// complete list of executed functions (coverage-gap analysis; not evidence)
		fb, _ := json.Marshal(funcs)
		os.WriteFile(fd, fb, 0o644)
	}
	if len(samples) == 0 {
		for _, r := range results {
			samples = append(samples, map[string]interface{}{"harness": r.Name, "paths": r.Paths, "note": "no satisfiable sample captured"})
		}
	}
	cov := map[string]interface{}{
		"states":                        max64(totPaths, 1),
		"transitions":                   max64(totDec, 1),
		"traces_validated_against_impl": validated,
		"samples":                       samples,
		"exhaustive":                    len(boundHits) == 0 && len(unsupported) == 0 && len(inconclusive) == 0,
		"explanation":                   "states = completed symbolic paths (each a conjunction of branch constraints over the real SSA of /repo, decided by the solver); transitions = symbolic branch decisions; an infeasible (unsat) error branch is a discharged obligation",
		"harnesses":                     harnessSummaries,
		"functions_encoded":             fenc,
		"functions_encoded_total":       len(funcs),
		"repo_functions_executed":       repoFns,
		"instructions_executed":         totSteps,
		"obligations":                   totAsserts + totTriv,
		"obligations_solver_unsat":      totAsserts,
		"obligations_folded":            totTriv,
		"queries":                       map[string]int{"sat": qSat, "unsat": qUnsat, "unknown": qUnk, "error": qErr, "killed_by_watchdog": qKilled},
		"solver_s":                      solverS,
		"solver":                        opt.Solver,
		"bound_hits":                    boundHits,
		"unsupported":                   unsupported,
		"inconclusive":                  inconclusive,
		"stubs":                         stubs,
		"lemmas_used":                   lemmas,
		"witnesses":                     witnesses,
		"native_validation_failures":    validationFailures,
		"known_finding_hits":            knownHits,
		"cross_solver":                  map[string]int{"queries_replayed_on_cvc5": crossCompared, "disagreements": crossDisagree, "skipped_unknown_or_timeout": crossSkipped},
		"broken":                        broken,
		"load_s":                        eng.LoadTime.Seconds(),
		"native_build_s":                nr.buildS,
	}
	ev := map[string]interface{}{
		"property_id": prop,
		"tier":        opt.Tier,
		"seed":        seed,
		"level":       "model_checking",
		"coverage":    cov,
		"assumptions": assumptionsFor(stubs, lemmas),
		"wall_s":      time.Since(t0).Seconds(),
		"violations":  violations,
	}
	os.MkdirAll(filepath.Join(outDir(verif), "evidence"), 0o755)
	b, _ := json.MarshalIndent(ev, "", " ")
	os.WriteFile(filepath.Join(outDir(verif), "evidence", prop+".json"), b, 0o644)

	for _, s := range inconclusive {
		fmt.Println("INCONCLUSIVE:", s)
	}
	for _, s := range broken {
		fmt.Println("BROKEN:", s)
	}
	fmt.Printf("check %s %s: %d harnesses, %d paths, %d decisions, %d obligations, %d native-validated, %d violations, %d known, %.1fs\n",
		prop, opt.Tier, len(hs), totPaths, totDec, totAsserts+totTriv, validated, violations, knownHits, time.Since(t0).Seconds())
	if violations > 0 {
		return 1
	}
	if len(broken) > 0 {
		return 2
	}
	return 0
}

const allocLabel = "allocation out of proportion to the input"
const allocConfirmBytes = 60000

// nativeShows: the native outcome exhibits the violation the engine reported.
func nativeShows(v vexec.Violation, o nativeOutcome) bool {
	switch v.Kind {
	case "assert":
		for _, f := range o.Failed {
			if f == v.Label {
				return true
			}
		}
		if v.Label == allocLabel {
			// the engine's verdict is about one make(); the real build is asked
			// what it allocated over the whole case (inputs are <= 128 bytes, a
			// legitimate decode stays far below this), and a panic of the real
			// build on the same input is a violation of the same property
			return o.AllocBytes > allocConfirmBytes || o.Panic != ""
		}
	case "panic":
		return o.Panic != ""
	}
	return false
}

// usesSchedule: the counterexample path contains scheduling decisions.
func usesSchedule(v vexec.Violation) bool { return v.Sched }

func max64(a, b int64) int64 {
	if a > b {
		return a
	}
	return b
}

func firstLine(s string) string {
	if i := strings.Index(s, "\n"); i >= 0 {
		return s[:i]
	}
	return s
}

func mergedParams(opt vexec.Options, h *vexec.Harness) map[string]int {
	m := map[string]int{}
	for k, v := range h.Params {
		m[k] = v
	}
	for k, v := range opt.Params {
		m[k] = v
	}
	return m
}

func compareSample(s vexec.PathSample, o nativeOutcome) string {
	if o.Mismatch != "" {
		return "vector mismatch: " + o.Mismatch
	}
	if o.AssumeFailed {
		return "native run violated an assumption the model satisfies"
	}
	if o.Panic != "" {
		return "native run panicked: " + o.Panic
	}
	if len(o.Failed) > 0 {
		return fmt.Sprintf("native run failed assertions %v on a path the engine completed without violation", o.Failed)
	}
	if len(o.Observed) != len(s.Observe) {
		return fmt.Sprintf("observation count differs: engine %d native %d", len(s.Observe), len(o.Observed))
	}
	for i := range s.Observe {
		if s.Observe[i].Label != o.Observed[i].Label || s.Observe[i].Val != o.Observed[i].Val {
			return fmt.Sprintf("observation %d differs: engine %s=%d native %s=%d", i, s.Observe[i].Label, s.Observe[i].Val, o.Observed[i].Label, o.Observed[i].Val)
		}
	}
	if len(o.Reached) != len(s.Reached) {
		return fmt.Sprintf("reach markers differ: engine %v native %v", s.Reached, o.Reached)
	}
	return ""
}

func assumptionsFor(stubs map[string]int, lemmas map[string]int) []string {
	a := []string{
		"bounded: only the shapes/sizes/counts stated in the harness parameters are covered",
		"go/ssa semantics as implemented by the vsym interpreter (validated on sampled paths against the native build)",
		"fmt/debug/reflect.TypeOf are opaque; sync.Pool is a LIFO free list; append growth ignores size classes",
		"caller-supplied components (Value/Storable/TypeInfo/digester/comparator/BaseStorage) are harness doubles obeying their documented contract",
	}
	for k := range stubs {
		a = append(a, "stub: "+k)
	}
	for k := range lemmas {
		a = append(a, "lemma summary: "+k)
	}
	sort.Strings(a[4:])
	return a
}

func writeBrokenEvidence(verif, prop, tier string, seed int64, msg string, wall float64) {
	ev := map[string]interface{}{
		"property_id": prop, "tier": tier, "seed": seed, "level": "other",
		"coverage": map[string]interface{}{"explanation": "harness did not build against this tree: " + firstLine(msg), "evaluations": 0},
		"wall_s":   wall, "violations": 0,
	}
	os.MkdirAll(filepath.Join(outDir(verif), "evidence"), 0o755)
	b, _ := json.MarshalIndent(ev, "", " ")
	os.WriteFile(filepath.Join(outDir(verif), "evidence", prop+".json"), b, 0o644)
}

// outDir: where evidence and replay files go. VERIF_OUT redirects them (used
// when a check is run against a scratch copy of the repository, e.g. with a
// seeded change applied, so that /verif/evidence keeps describing /repo).
func outDir(verif string) string {
	if d := os.Getenv("VERIF_OUT"); d != "" {
		return d
	}
	return verif
}

func runReplay(opt vexec.Options, path string, verif string) int {
	eng, err := vexec.Load(opt)
	if err != nil {
		fmt.Println(err)
		return 2
	}
	b, err := os.ReadFile(path)
	if err != nil {
		fmt.Println(err)
		return 2
	}
	var cases []replayCase
	if err := json.Unmarshal(b, &cases); err != nil {
		fmt.Println(err)
		return 2
	}
	tmp, _ := os.MkdirTemp("", "vsym.")
	defer os.RemoveAll(tmp)
	nr := &nativeRunner{tmp: tmp, eng: eng, verif: verif}
	if len(cases) == 1 && (cases[0].Kind == "race" || cases[0].Kind == "deadlock") {
		race, dl, _, err := nr.runScheduleDependent(cases[0], cases[0].Label, 20)
		if err != nil {
			fmt.Println(err)
			return 2
		}
		fmt.Printf("replay %s (%s %q): native runs with the race detector: race=%v deadlock=%v\n", cases[0].Harness, cases[0].Property, cases[0].Label, race, dl)
		if (cases[0].Kind == "race" && race) || (cases[0].Kind == "deadlock" && dl) {
			fmt.Println("REPRODUCED")
			return 1
		}
		fmt.Println("not reproduced")
		return 0
	}
	outs, err := nr.run(cases)
	if err != nil {
		fmt.Println(err)
		return 2
	}
	rc := 0
	for i, o := range outs {
		c := cases[i]
		ob, _ := json.Marshal(o)
		fmt.Printf("replay %s (%s %q): %s\n", c.Harness, c.Property, c.Label, ob)
		for _, f := range o.Failed {
			if f == c.Label {
				rc = 1
			}
		}
		if c.Kind == "panic" && o.Panic != "" {
			rc = 1
		}
	}
	if rc == 1 {
		fmt.Println("REPRODUCED")
	} else {
		fmt.Println("not reproduced")
	}
	return rc
}
