package main

import (
	"flag"
	"fmt"
	"os"
	"regexp"
	"runtime"
	"sort"
	"strings"

	"vsym/exec"
)

func vexecSetup() { exec.SetupProcessEnv() }

func main() {
	var opt exec.Options
	flag.StringVar(&opt.RepoDir, "repo", "/repo", "repository directory")
	flag.StringVar(&opt.HarnessDir, "harness", "/verif/harness", "harness directory")
	flag.IntVar(&opt.Workers, "j", runtime.NumCPU(), "workers")
	flag.StringVar(&opt.Solver, "solver", "z3", "z3|cvc5")
	flag.IntVar(&opt.TimeoutMs, "timeout", 20000, "per-query timeout ms")
	flag.Int64Var(&opt.MaxSteps, "maxsteps", 20000000, "instruction budget per path")
	flag.IntVar(&opt.MaxDepth, "maxdepth", 400, "call depth bound")
	flag.IntVar(&opt.MaxFork, "maxfork", 4096, "max fan-out when concretising")
	flag.IntVar(&opt.MaxAlloc, "maxalloc", 1<<16, "max make() length")
	flag.StringVar(&opt.Tier, "tier", "quick", "quick|thorough")
	flag.StringVar(&opt.SolverLog, "smtlog", "", "prefix for solver transcripts")
	flag.IntVar(&opt.BudgetSec, "budget", 0, "wall-clock budget per harness in seconds (0 = none)")
	flag.BoolVar(&opt.EagerAssume, "eager", true, "check feasibility right after each assume")
	pat := flag.String("run", ".", "regexp of harness names")
	verif := flag.String("verif", "/verif", "verif directory")
	seed := flag.Int64("seed", 0, "seed (sampling only)")
	params := flag.String("p", "", "harness params: name=value,...")
	flag.Parse()
	opt.Params = map[string]int{}
	for _, kv := range strings.Split(*params, ",") {
		if i := strings.Index(kv, "="); i > 0 {
			var v int
			fmt.Sscan(kv[i+1:], &v)
			opt.Params[kv[:i]] = v
		}
	}
	vexecSetup()
	if flag.NArg() >= 1 {
		switch flag.Arg(0) {
		case "check":
			if flag.NArg() < 2 {
				fmt.Fprintln(os.Stderr, "usage: vsym [flags] check <property>")
				os.Exit(2)
			}
			os.Exit(runCheck(opt, flag.Arg(1), *seed, *verif))
		case "replay":
			os.Exit(runReplay(opt, flag.Arg(1), *verif))
		}
	}
	eng, err := exec.Load(opt)
	if err != nil {
		fmt.Fprintln(os.Stderr, err)
		os.Exit(2)
	}
	fmt.Printf("loaded in %v: %d harnesses, %d stubs\n", eng.LoadTime, len(eng.Harnesses), len(eng.RedirectNames))
	re := regexp.MustCompile(*pat)
	for _, h := range eng.Harnesses {
		if !re.MatchString(h.Name) {
			continue
		}
		r, err := eng.RunHarness(h)
		if err != nil {
			fmt.Fprintln(os.Stderr, err)
			os.Exit(2)
		}
		fmt.Printf("%s: paths=%d infeasible=%d decisions=%d asserts=%d(+%d trivial) steps=%d wall=%v solver=%v (sat %d unsat %d unk %d err %d) depth=%d\n",
			h.Name, r.Paths, r.Infeasible, r.Decisions, r.Asserts, r.TrivAsserts, r.Steps, r.Wall, r.Solver.Time, r.Solver.Sat, r.Solver.Unsat, r.Solver.Unknown, r.Solver.Errors, r.MaxDepth)
		for k, v := range r.Reach {
			fmt.Printf("  reach %s: %d\n", k, v)
		}
		for k, v := range r.Unsupported {
			fmt.Printf("  UNSUPPORTED x%d: %s\n", v, k)
		}
		for k, v := range r.BoundHits {
			fmt.Printf("  BOUND x%d: %s\n", v, k)
		}
		for _, s := range r.Inconclusive {
			fmt.Printf("  INCONCLUSIVE: %s\n", s)
		}
		var labels []string
		for k := range r.ViolCount {
			labels = append(labels, k)
		}
		sort.Strings(labels)
		for _, k := range labels {
			fmt.Printf("  VIOLATION x%d: %s\n", r.ViolCount[k], k)
		}
		for _, v := range r.Violations {
			fmt.Printf("    %s @%s vector=%v\n", v.Label, v.Pos, v.Vector)
		}
		for k, v := range r.Lemmas {
			fmt.Printf("  lemma %s used %d\n", k, v)
		}
	}
}
