// Package sym: hash-consed terms over fixed-width integers, booleans and
// float64, with constant folding that follows Go semantics, an unsigned
// interval analysis, and two SMT-LIB2 renderings (INT: mathematical integers
// with explicit mod-2^w wrap; BV: bit-vectors).
package sym

import (
	"fmt"
	"math"
	"math/bits"
	"strings"
)

type Kind uint8

const (
	KConst Kind = iota
	KVar
	KAdd
	KSub
	KMul
	KUDiv
	KURem
	KSDiv
	KSRem
	KAnd
	KOr
	KXor
	KShl
	KLShr
	KAShr
	KNot
	KNeg
	KZExt
	KSExt
	KTrunc
	KIte
	// bool
	KEq
	KUlt
	KUle
	KSlt
	KSle
	KBAnd
	KBOr
	KBNot
	// float64
	KFFromU // uint -> float64
	KFFromS // int -> float64
	KFAdd
	KFSub
	KFMul
	KFDiv
	KFNeg
	KFCeil
	KFToU // float64 -> uint (W = target width)
	KFToS
	KFLt
	KFLe
	KFEq
	KFFromBits // reinterpret 32/64-bit integer as IEEE float (widened to float64)
)

var kindNames = [...]string{"const", "var", "add", "sub", "mul", "udiv", "urem", "sdiv", "srem", "and", "or", "xor", "shl", "lshr", "ashr", "not", "neg", "zext", "sext", "trunc", "ite",
	"eq", "ult", "ule", "slt", "sle", "band", "bor", "bnot",
	"ffromu", "ffroms", "fadd", "fsub", "fmul", "fdiv", "fneg", "fceil", "ftou", "ftos", "flt", "fle", "feq", "ffrombits"}

type Sort uint8

const (
	SBool Sort = iota
	SInt
	SF64
)

// Term is immutable and unique per (builder, structure).
type Term struct {
	K       Kind
	S       Sort
	W       uint8 // width for SInt
	A, B, C *Term
	V       uint64 // constant value (masked) / float bits / bool (0/1)
	Name    string
	Lo, Hi  uint64 // unsigned interval (SInt only)
	ID      int
	// cached renderings
	rInt, rBV string
}

type key struct {
	k       Kind
	s       Sort
	w       uint8
	a, b, c int
	v       uint64
	name    string
}

// TB is a term builder (one per worker; not thread-safe).
type TB struct {
	tab   map[key]*Term
	n     int
	True  *Term
	False *Term
	// LemmaUse records summaries applied while rendering/simplifying.
	LemmaUse map[string]int
	FPExact  bool // render float terms exactly (FP theory) instead of using lemma summaries
}

func NewTB() *TB {
	tb := &TB{tab: map[key]*Term{}, LemmaUse: map[string]int{}}
	tb.True = tb.mk(&Term{K: KConst, S: SBool, V: 1})
	tb.False = tb.mk(&Term{K: KConst, S: SBool, V: 0})
	return tb
}

func id(t *Term) int {
	if t == nil {
		return -1
	}
	return t.ID
}

func (tb *TB) mk(t *Term) *Term {
	k := key{t.K, t.S, t.W, id(t.A), id(t.B), id(t.C), t.V, t.Name}
	if e, ok := tb.tab[k]; ok {
		return e
	}
	t.ID = tb.n
	tb.n++
	tb.tab[k] = t
	return t
}

func (tb *TB) Size() int { return tb.n }

func mask(w uint8) uint64 {
	if w >= 64 {
		return ^uint64(0)
	}
	return (uint64(1) << w) - 1
}

func (t *Term) IsConst() bool { return t.K == KConst }
func (t *Term) IsTrue() bool  { return t.K == KConst && t.S == SBool && t.V == 1 }
func (t *Term) IsFalse() bool { return t.K == KConst && t.S == SBool && t.V == 0 }

// Signed value of a constant.
func (t *Term) SVal() int64 { return sext64(t.V, t.W) }

func sext64(v uint64, w uint8) int64 {
	if w >= 64 {
		return int64(v)
	}
	sh := 64 - uint(w)
	return int64(v<<sh) >> sh
}

func (tb *TB) Const(w uint8, v uint64) *Term {
	v &= mask(w)
	return tb.mk(&Term{K: KConst, S: SInt, W: w, V: v, Lo: v, Hi: v})
}

func (tb *TB) Bool(b bool) *Term {
	if b {
		return tb.True
	}
	return tb.False
}

func (tb *TB) FConst(f float64) *Term {
	return tb.mk(&Term{K: KConst, S: SF64, W: 64, V: math.Float64bits(f)})
}

func (t *Term) FVal() float64 { return math.Float64frombits(t.V) }

// Var creates (or returns) an integer variable with a declared range.
func (tb *TB) Var(name string, w uint8, lo, hi uint64) *Term {
	m := mask(w)
	if hi > m {
		hi = m
	}
	return tb.mk(&Term{K: KVar, S: SInt, W: w, Name: name, Lo: lo, Hi: hi, V: lo ^ (hi << 1) ^ (hi >> 63)})
}

func (tb *TB) BoolVar(name string) *Term {
	return tb.mk(&Term{K: KVar, S: SBool, Name: name})
}

func (tb *TB) un(k Kind, w uint8, a *Term, lo, hi uint64) *Term {
	if lo == hi {
		return tb.Const(w, lo)
	}
	return tb.mk(&Term{K: k, S: SInt, W: w, A: a, Lo: lo, Hi: hi})
}

func (tb *TB) bin(k Kind, a, b *Term, lo, hi uint64) *Term {
	if lo == hi {
		return tb.Const(a.W, lo)
	}
	return tb.mk(&Term{K: k, S: SInt, W: a.W, A: a, B: b, Lo: lo, Hi: hi})
}

func (tb *TB) boolOp(k Kind, a, b *Term) *Term {
	return tb.mk(&Term{K: k, S: SBool, A: a, B: b})
}

func chkW(a, b *Term) {
	if a.S != b.S || a.W != b.W {
		panic(fmt.Sprintf("sym: width mismatch %v/%d vs %v/%d (%s , %s)", a.S, a.W, b.S, b.W, a, b))
	}
}

func (tb *TB) Add(a, b *Term) *Term {
	chkW(a, b)
	w := a.W
	if a.IsConst() && b.IsConst() {
		return tb.Const(w, a.V+b.V)
	}
	if a.IsConst() { // constants on the right
		a, b = b, a
	}
	if b.IsConst() && b.V == 0 {
		return a
	}
	// (x + c1) + c2
	if b.IsConst() && a.K == KAdd && a.B.IsConst() {
		return tb.Add(a.A, tb.Const(w, a.B.V+b.V))
	}
	// (x - c1) + c2
	if b.IsConst() && a.K == KSub && a.B.IsConst() {
		if b.V >= a.B.V {
			return tb.Add(a.A, tb.Const(w, b.V-a.B.V))
		}
		return tb.Sub(a.A, tb.Const(w, a.B.V-b.V))
	}
	// (x - y) + y
	if a.K == KSub && a.B == b {
		return a.A
	}
	if b.K == KSub && b.B == a {
		return b.A
	}
	if (a.K == KShl || b.K == KShl) && !a.IsConst() && !b.IsConst() {
		if m := tb.tryMergePieces(a, b); m != nil {
			return m
		}
	}
	m := mask(w)
	hi, c := bits.Add64(a.Hi, b.Hi, 0)
	if c != 0 || hi > m {
		return tb.bin(KAdd, a, b, 0, m)
	}
	return tb.bin(KAdd, a, b, a.Lo+b.Lo, hi)
}

func (tb *TB) Sub(a, b *Term) *Term {
	chkW(a, b)
	w := a.W
	if a.IsConst() && b.IsConst() {
		return tb.Const(w, a.V-b.V)
	}
	if b.IsConst() && b.V == 0 {
		return a
	}
	if a == b {
		return tb.Const(w, 0)
	}
	// (x + y) - y, (x + y) - x
	if a.K == KAdd && a.B == b {
		return a.A
	}
	if a.K == KAdd && a.A == b {
		return a.B
	}
	// (x + c1) - c2 where no wrap in x + c1
	if b.IsConst() && a.K == KAdd && a.B.IsConst() {
		if a.B.V >= b.V {
			return tb.Add(a.A, tb.Const(w, a.B.V-b.V))
		}
		return tb.Sub(a.A, tb.Const(w, b.V-a.B.V))
	}
	// (x - c1) - c2 when x - c1 doesn't wrap
	if b.IsConst() && a.K == KSub && a.B.IsConst() {
		return tb.Sub(a.A, tb.Const(w, a.B.V+b.V))
	}
	m := mask(w)
	if a.Lo >= b.Hi {
		return tb.bin(KSub, a, b, a.Lo-b.Hi, a.Hi-b.Lo)
	}
	return tb.bin(KSub, a, b, 0, m)
}

func (tb *TB) addWraps(t *Term) bool {
	hi, c := bits.Add64(t.A.Hi, t.B.Hi, 0)
	return c != 0 || hi > mask(t.W)
}

func (tb *TB) subWraps(t *Term) bool { return t.A.Lo < t.B.Hi }

func (tb *TB) Mul(a, b *Term) *Term {
	chkW(a, b)
	w := a.W
	if a.IsConst() && b.IsConst() {
		return tb.Const(w, a.V*b.V)
	}
	if a.IsConst() {
		a, b = b, a
	}
	if b.IsConst() {
		if b.V == 0 {
			return b
		}
		if b.V == 1 {
			return a
		}
	}
	m := mask(w)
	h, l := bits.Mul64(a.Hi, b.Hi)
	if h != 0 || l > m {
		return tb.bin(KMul, a, b, 0, m)
	}
	return tb.bin(KMul, a, b, a.Lo*b.Lo, l)
}

func (tb *TB) UDiv(a, b *Term) *Term {
	chkW(a, b)
	if b.IsConst() && b.V != 0 {
		if a.IsConst() {
			return tb.Const(a.W, a.V/b.V)
		}
		if b.V == 1 {
			return a
		}
		return tb.bin(KUDiv, a, b, a.Lo/b.V, a.Hi/b.V)
	}
	lo := uint64(0)
	if b.Hi != 0 {
		lo = a.Lo / b.Hi
	}
	hi := a.Hi
	if b.Lo > 0 {
		hi = a.Hi / b.Lo
	}
	return tb.bin(KUDiv, a, b, lo, hi)
}

func (tb *TB) URem(a, b *Term) *Term {
	chkW(a, b)
	if b.IsConst() && b.V != 0 {
		if a.IsConst() {
			return tb.Const(a.W, a.V%b.V)
		}
		if a.Hi < b.V {
			return a
		}
		return tb.bin(KURem, a, b, 0, b.V-1)
	}
	hi := a.Hi
	if b.Hi > 0 && b.Hi-1 < hi {
		hi = b.Hi - 1
	}
	return tb.bin(KURem, a, b, 0, hi)
}

func (tb *TB) SDiv(a, b *Term) *Term {
	chkW(a, b)
	w := a.W
	if a.IsConst() && b.IsConst() && b.V != 0 {
		x, y := a.SVal(), b.SVal()
		if y == -1 {
			return tb.Const(w, uint64(-x))
		}
		return tb.Const(w, uint64(x/y))
	}
	// both provably non-negative: same as unsigned
	half := uint64(1) << (w - 1)
	if a.Hi < half && b.Hi < half {
		return tb.UDiv(a, b)
	}
	return tb.bin(KSDiv, a, b, 0, mask(w))
}

func (tb *TB) SRem(a, b *Term) *Term {
	chkW(a, b)
	w := a.W
	if a.IsConst() && b.IsConst() && b.V != 0 {
		x, y := a.SVal(), b.SVal()
		if y == -1 {
			return tb.Const(w, 0)
		}
		return tb.Const(w, uint64(x%y))
	}
	half := uint64(1) << (w - 1)
	if a.Hi < half && b.Hi < half {
		return tb.URem(a, b)
	}
	return tb.bin(KSRem, a, b, 0, mask(w))
}

func tz(t *Term) uint {
	// number of known trailing zero bits
	switch t.K {
	case KConst:
		if t.V == 0 {
			return uint(t.W)
		}
		return uint(bits.TrailingZeros64(t.V))
	case KShl:
		if t.B.IsConst() {
			n := tz(t.A) + uint(t.B.V)
			if n > uint(t.W) {
				n = uint(t.W)
			}
			return n
		}
	case KMul:
		n := tz(t.A) + tz(t.B)
		if n > uint(t.W) {
			n = uint(t.W)
		}
		return n
	case KZExt:
		if t.A.IsConst() && t.A.V == 0 {
			return uint(t.W)
		}
		return tz(t.A)
	case KOr, KAdd:
		a, b := tz(t.A), tz(t.B)
		if a < b {
			return a
		}
		return b
	case KAnd:
		a, b := tz(t.A), tz(t.B)
		if a > b {
			return a
		}
		return b
	}
	return 0
}

func (tb *TB) And(a, b *Term) *Term {
	chkW(a, b)
	w := a.W
	if a.IsConst() && b.IsConst() {
		return tb.Const(w, a.V&b.V)
	}
	if a.IsConst() {
		a, b = b, a
	}
	if b.IsConst() {
		if b.V == 0 {
			return b
		}
		if b.V == mask(w) {
			return a
		}
		// x & (2^k-1) with x < 2^k
		if b.V&(b.V+1) == 0 && a.Hi <= b.V {
			return a
		}
		// mask entirely below the known trailing zeros
		if t := tz(a); t < 64 && b.V < (uint64(1)<<t) {
			return tb.Const(w, 0)
		}
	}
	if a == b {
		return a
	}
	hi := a.Hi
	if b.Hi < hi {
		hi = b.Hi
	}
	return tb.bin(KAnd, a, b, 0, hi)
}

func pow2ceil(v uint64) uint64 { // smallest 2^k-1 >= v
	if v == 0 {
		return 0
	}
	n := bits.Len64(v)
	if n >= 64 {
		return ^uint64(0)
	}
	return (uint64(1) << n) - 1
}

func (tb *TB) Or(a, b *Term) *Term {
	chkW(a, b)
	w := a.W
	if a.IsConst() && b.IsConst() {
		return tb.Const(w, a.V|b.V)
	}
	if a.IsConst() {
		a, b = b, a
	}
	if b.IsConst() && b.V == 0 {
		return a
	}
	if a == b {
		return a
	}
	// disjoint bit ranges: or == add
	if t := tz(a); t > 0 && (t >= 64 || b.Hi < (uint64(1)<<t)) {
		return tb.Add(a, b)
	}
	if t := tz(b); t > 0 && (t >= 64 || a.Hi < (uint64(1)<<t)) {
		return tb.Add(a, b)
	}
	hi := pow2ceil(a.Hi) | pow2ceil(b.Hi)
	lo := a.Lo
	if b.Lo > lo {
		lo = b.Lo
	}
	return tb.bin(KOr, a, b, lo, hi)
}

func (tb *TB) Xor(a, b *Term) *Term {
	chkW(a, b)
	w := a.W
	if a.IsConst() && b.IsConst() {
		return tb.Const(w, a.V^b.V)
	}
	if a.IsConst() {
		a, b = b, a
	}
	if b.IsConst() && b.V == 0 {
		return a
	}
	if a == b {
		return tb.Const(w, 0)
	}
	return tb.bin(KXor, a, b, 0, pow2ceil(a.Hi)|pow2ceil(b.Hi))
}

// Shl: b is the shift amount, already converted to width of a (unsigned).
func (tb *TB) Shl(a, b *Term) *Term {
	chkW(a, b)
	w := a.W
	if b.IsConst() {
		if b.V >= uint64(w) {
			return tb.Const(w, 0)
		}
		if b.V == 0 {
			return a
		}
		if a.IsConst() {
			return tb.Const(w, a.V<<b.V)
		}
		m := mask(w)
		if bits.Len64(a.Hi)+int(b.V) <= int(w) {
			return tb.bin(KShl, a, b, a.Lo<<b.V, a.Hi<<b.V)
		}
		return tb.bin(KShl, a, b, 0, m)
	}
	return tb.bin(KShl, a, b, 0, mask(w))
}

func (tb *TB) LShr(a, b *Term) *Term {
	chkW(a, b)
	w := a.W
	if b.IsConst() {
		if b.V >= uint64(w) {
			return tb.Const(w, 0)
		}
		if b.V == 0 {
			return a
		}
		if a.IsConst() {
			return tb.Const(w, a.V>>b.V)
		}
		return tb.bin(KLShr, a, b, a.Lo>>b.V, a.Hi>>b.V)
	}
	return tb.bin(KLShr, a, b, 0, a.Hi)
}

func (tb *TB) AShr(a, b *Term) *Term {
	chkW(a, b)
	w := a.W
	half := uint64(1) << (w - 1)
	if a.Hi < half {
		return tb.LShr(a, b)
	}
	if b.IsConst() && a.IsConst() {
		sh := b.V
		if sh >= uint64(w) {
			sh = uint64(w) - 1
		}
		return tb.Const(w, uint64(a.SVal()>>sh))
	}
	return tb.bin(KAShr, a, b, 0, mask(w))
}

func (tb *TB) Not(a *Term) *Term {
	if a.IsConst() {
		return tb.Const(a.W, ^a.V)
	}
	if a.K == KNot {
		return a.A
	}
	m := mask(a.W)
	return tb.un(KNot, a.W, a, m-a.Hi, m-a.Lo)
}

func (tb *TB) Neg(a *Term) *Term {
	return tb.Sub(tb.Const(a.W, 0), a)
}

func (tb *TB) ZExt(a *Term, w uint8) *Term {
	if w == a.W {
		return a
	}
	if w < a.W {
		return tb.Trunc(a, w)
	}
	if a.IsConst() {
		return tb.Const(w, a.V)
	}
	// zext(trunc(x)) where the truncation lost nothing
	if a.K == KTrunc && a.A.Hi <= mask(a.W) {
		x := a.A
		switch {
		case x.W == w:
			return x
		case x.W > w:
			return tb.Trunc(x, w)
		default:
			return tb.ZExt(x, w)
		}
	}
	return tb.un(KZExt, w, a, a.Lo, a.Hi)
}

func (tb *TB) SExt(a *Term, w uint8) *Term {
	if w == a.W {
		return a
	}
	if w < a.W {
		return tb.Trunc(a, w)
	}
	if a.IsConst() {
		return tb.Const(w, uint64(a.SVal()))
	}
	half := uint64(1) << (a.W - 1)
	if a.Hi < half {
		return tb.un(KZExt, w, a, a.Lo, a.Hi)
	}
	return tb.un(KSExt, w, a, 0, mask(w))
}

func (tb *TB) Trunc(a *Term, w uint8) *Term {
	if w == a.W {
		return a
	}
	if w > a.W {
		panic("sym: Trunc widening")
	}
	if a.IsConst() {
		return tb.Const(w, a.V)
	}
	// trunc(zext(x)) where x has width <= w
	if (a.K == KZExt) && a.A.W <= w {
		return tb.ZExt(a.A, w)
	}
	if (a.K == KZExt || a.K == KSExt) && a.A.W > w {
		return tb.Trunc(a.A, w)
	}
	m := mask(w)
	if a.Hi <= m {
		return tb.un(KTrunc, w, a, a.Lo, a.Hi)
	}
	return tb.un(KTrunc, w, a, 0, m)
}

func (tb *TB) Ite(c, a, b *Term) *Term {
	if c.IsTrue() {
		return a
	}
	if c.IsFalse() {
		return b
	}
	if a == b {
		return a
	}
	if a.S == SBool {
		return tb.BOr(tb.BAnd(c, a), tb.BAnd(tb.BNot(c), b))
	}
	chkW(a, b)
	lo, hi := a.Lo, a.Hi
	if b.Lo < lo {
		lo = b.Lo
	}
	if b.Hi > hi {
		hi = b.Hi
	}
	return tb.mk(&Term{K: KIte, S: a.S, W: a.W, A: a, B: b, C: c, Lo: lo, Hi: hi})
}

// ---- booleans ----

func (tb *TB) Eq(a, b *Term) *Term {
	if a.S == SBool {
		if a == b {
			return tb.True
		}
		if a.IsConst() {
			a, b = b, a
		}
		if b.IsTrue() {
			return a
		}
		if b.IsFalse() {
			return tb.BNot(a)
		}
		if a.ID > b.ID {
			a, b = b, a
		}
		return tb.boolOp(KEq, a, b)
	}
	if a.S == SF64 {
		return tb.FCmp(KFEq, a, b)
	}
	chkW(a, b)
	if a == b {
		return tb.True
	}
	if a.IsConst() && b.IsConst() {
		return tb.Bool(a.V == b.V)
	}
	if a.Hi < b.Lo || b.Hi < a.Lo {
		return tb.False
	}
	if a.IsConst() {
		a, b = b, a
	}
	// zext(x) == c  -> x == c
	if b.IsConst() && a.K == KZExt {
		if b.V > mask(a.A.W) {
			return tb.False
		}
		return tb.Eq(a.A, tb.Const(a.A.W, b.V))
	}
	if !b.IsConst() && a.ID > b.ID {
		a, b = b, a
	}
	return tb.boolOp(KEq, a, b)
}

func (tb *TB) Ne(a, b *Term) *Term { return tb.BNot(tb.Eq(a, b)) }

func (tb *TB) Ult(a, b *Term) *Term {
	chkW(a, b)
	if a == b {
		return tb.False
	}
	if a.Hi < b.Lo {
		return tb.True
	}
	if a.Lo >= b.Hi {
		return tb.False
	}
	if a.K == KZExt && b.K == KZExt && a.A.W == b.A.W {
		return tb.Ult(a.A, b.A)
	}
	return tb.boolOp(KUlt, a, b)
}

func (tb *TB) Ule(a, b *Term) *Term { return tb.BNot(tb.Ult(b, a)) }
func (tb *TB) Ugt(a, b *Term) *Term { return tb.Ult(b, a) }
func (tb *TB) Uge(a, b *Term) *Term { return tb.BNot(tb.Ult(a, b)) }

func (tb *TB) Slt(a, b *Term) *Term {
	chkW(a, b)
	if a == b {
		return tb.False
	}
	if a.IsConst() && b.IsConst() {
		return tb.Bool(a.SVal() < b.SVal())
	}
	half := uint64(1) << (a.W - 1)
	if a.Hi < half && b.Hi < half {
		return tb.Ult(a, b)
	}
	if a.Lo >= half && b.Lo >= half {
		return tb.Ult(a, b)
	}
	if a.Lo >= half && b.Hi < half { // a negative, b non-negative
		return tb.True
	}
	if a.Hi < half && b.Lo >= half {
		return tb.False
	}
	return tb.boolOp(KSlt, a, b)
}

func (tb *TB) Sle(a, b *Term) *Term { return tb.BNot(tb.Slt(b, a)) }
func (tb *TB) Sgt(a, b *Term) *Term { return tb.Slt(b, a) }
func (tb *TB) Sge(a, b *Term) *Term { return tb.BNot(tb.Slt(a, b)) }

func (tb *TB) BNot(a *Term) *Term {
	if a.IsTrue() {
		return tb.False
	}
	if a.IsFalse() {
		return tb.True
	}
	if a.K == KBNot {
		return a.A
	}
	return tb.boolOp(KBNot, a, nil)
}

func (tb *TB) BAnd(a, b *Term) *Term {
	if a.IsFalse() || b.IsFalse() {
		return tb.False
	}
	if a.IsTrue() {
		return b
	}
	if b.IsTrue() {
		return a
	}
	if a == b {
		return a
	}
	if (a.K == KBNot && a.A == b) || (b.K == KBNot && b.A == a) {
		return tb.False
	}
	return tb.boolOp(KBAnd, a, b)
}

func (tb *TB) BOr(a, b *Term) *Term {
	if a.IsTrue() || b.IsTrue() {
		return tb.True
	}
	if a.IsFalse() {
		return b
	}
	if b.IsFalse() {
		return a
	}
	if a == b {
		return a
	}
	if (a.K == KBNot && a.A == b) || (b.K == KBNot && b.A == a) {
		return tb.True
	}
	return tb.boolOp(KBOr, a, b)
}

func (tb *TB) BXor(a, b *Term) *Term { return tb.BNot(tb.Eq(a, b)) }

// BoolToInt gives ite(c,1,0).
func (tb *TB) BoolToInt(c *Term, w uint8) *Term {
	return tb.Ite(c, tb.Const(w, 1), tb.Const(w, 0))
}

// ---- floats ----

func (tb *TB) fmk(k Kind, a, b *Term) *Term {
	return tb.mk(&Term{K: k, S: SF64, W: 64, A: a, B: b})
}

func (tb *TB) FFromInt(a *Term, signed bool) *Term {
	if a.IsConst() {
		if signed {
			return tb.FConst(float64(a.SVal()))
		}
		return tb.FConst(float64(a.V))
	}
	if signed && a.Hi >= uint64(1)<<(a.W-1) {
		return tb.fmk(KFFromS, a, nil)
	}
	return tb.fmk(KFFromU, a, nil)
}

// FFromBits reinterprets a 32- or 64-bit integer as a float (as float64).
func (tb *TB) FFromBits(a *Term) *Term {
	if a.IsConst() {
		if a.W == 32 {
			return tb.FConst(float64(math.Float32frombits(uint32(a.V))))
		}
		return tb.FConst(math.Float64frombits(a.V))
	}
	return tb.fmk(KFFromBits, a, nil)
}

func (tb *TB) FBin(k Kind, a, b *Term) *Term {
	if a.IsConst() && b.IsConst() {
		x, y := a.FVal(), b.FVal()
		switch k {
		case KFAdd:
			return tb.FConst(x + y)
		case KFSub:
			return tb.FConst(x - y)
		case KFMul:
			return tb.FConst(x * y)
		case KFDiv:
			return tb.FConst(x / y)
		}
	}
	return tb.fmk(k, a, b)
}

func (tb *TB) FNeg(a *Term) *Term {
	if a.IsConst() {
		return tb.FConst(-a.FVal())
	}
	return tb.fmk(KFNeg, a, nil)
}

func (tb *TB) FCeil(a *Term) *Term {
	if a.IsConst() {
		return tb.FConst(math.Ceil(a.FVal()))
	}
	return tb.fmk(KFCeil, a, nil)
}

func (tb *TB) FCmp(k Kind, a, b *Term) *Term {
	if a.IsConst() && b.IsConst() {
		x, y := a.FVal(), b.FVal()
		switch k {
		case KFLt:
			return tb.Bool(x < y)
		case KFLe:
			return tb.Bool(x <= y)
		case KFEq:
			return tb.Bool(x == y)
		}
	}
	// interval folding for floats derived from bounded unsigned integers
	// (fromU(x), fromU(x)*c, fromU(x)/c with c > 0): the float of an integer below
	// 2^53 is exact and the operations are monotone, so disjoint ranges decide
	// the comparison without a floating-point query.
	if !tb.FPExact {
		if alo, ahi, ok := floatRange(a); ok {
			if blo, bhi, ok2 := floatRange(b); ok2 {
				switch k {
				case KFLt:
					if ahi < blo {
						return tb.True
					}
					if alo >= bhi {
						return tb.False
					}
				case KFLe:
					if ahi <= blo {
						return tb.True
					}
					if alo > bhi {
						return tb.False
					}
				case KFEq:
					if ahi < blo || bhi < alo {
						return tb.False
					}
				}
			}
		}
	}
	return tb.boolOp(k, a, b)
}

// floatRange: a conservative [lo,hi] for constants and for fromU(x) scaled or
// divided by a positive constant, x of width <= 32 (slack of one part in 2^40
// covers the rounding of the single multiplication/division).
func floatRange(t *Term) (float64, float64, bool) {
	if t.IsConst() {
		f := t.FVal()
		if f != f {
			return 0, 0, false
		}
		return f, f, true
	}
	if t.K == KFFromU && t.A.Hi < 1<<53 {
		return float64(t.A.Lo), float64(t.A.Hi), true
	}
	if (t.K == KFMul || t.K == KFDiv) && t.A.K == KFFromU && t.A.A.Hi < 1<<53 && t.B.IsConst() {
		c := t.B.FVal()
		if !(c > 0) || c > 1e12 || c < 1e-12 {
			return 0, 0, false
		}
		lo, hi := float64(t.A.A.Lo), float64(t.A.A.Hi)
		if t.K == KFMul {
			lo, hi = lo*c, hi*c
		} else {
			lo, hi = lo/c, hi/c
		}
		const eps = 1.0 / (1 << 40)
		return lo * (1 - eps), hi * (1 + eps), true
	}
	return 0, 0, false
}

// FToInt converts float64 to an integer of width w.
// Summaries (unless FPExact): uint(ceil(float(x)/k)) = (x+k-1)/k, uint(float(x)*1.5) = x + x/2
// for x of width <= 32; recorded in LemmaUse and discharged separately by lemma harnesses.
func (tb *TB) FToInt(a *Term, w uint8, signed bool) *Term {
	if a.IsConst() {
		f := a.FVal()
		if signed {
			return tb.Const(w, uint64(int64(f)))
		}
		return tb.Const(w, uint64(f))
	}
	if !tb.FPExact {
		if r := tb.fpSummary(a, w); r != nil {
			return r
		}
	}
	k := KFToU
	if signed {
		k = KFToS
	}
	return tb.mk(&Term{K: k, S: SInt, W: w, A: a, Lo: 0, Hi: mask(w)})
}

func isPosIntFloat(t *Term) (uint64, bool) {
	if !t.IsConst() {
		return 0, false
	}
	f := t.FVal()
	if f < 1 || f > 1<<20 || f != math.Floor(f) {
		return 0, false
	}
	return uint64(f), true
}

func (tb *TB) fpSummary(a *Term, w uint8) *Term {
	// ceil(fromU(x)/k)
	if a.K == KFCeil && a.A.K == KFDiv && a.A.A.K == KFFromU && a.A.A.A.W <= 32 {
		if k, ok := isPosIntFloat(a.A.B); ok {
			x := tb.ZExt(a.A.A.A, 64)
			tb.LemmaUse[fmt.Sprintf("L-ceildiv-%d", k)]++
			r := tb.UDiv(tb.Add(x, tb.Const(64, k-1)), tb.Const(64, k))
			if w < 64 {
				return tb.Trunc(r, w)
			}
			return r
		}
	}
	// fromU(x)*1.5
	if a.K == KFMul && a.A.K == KFFromU && a.A.A.W <= 32 && a.B.IsConst() && a.B.FVal() == 1.5 {
		tb.LemmaUse["L-mul1.5"]++
		if src := a.A.A; src.Hi <= mask(w)/2 {
			// no wrap possible at the result width: stay at that width (keeps
			// the term linear, without zero-extension and truncation)
			xs := tb.ZExt(src, w) // (truncates when src is wider; nothing is lost: src.Hi fits)
			return tb.Add(xs, tb.UDiv(xs, tb.Const(w, 2)))
		}
		x := tb.ZExt(a.A.A, 64)
		r := tb.Add(x, tb.UDiv(x, tb.Const(64, 2)))
		if w < 64 {
			return tb.Trunc(r, w)
		}
		return r
	}
	return nil
}

// ---- printing (debug) ----

func (t *Term) String() string {
	var sb strings.Builder
	t.str(&sb, 0)
	return sb.String()
}

func (t *Term) str(sb *strings.Builder, depth int) {
	if depth > 12 {
		sb.WriteString("...")
		return
	}
	switch t.K {
	case KConst:
		switch t.S {
		case SBool:
			if t.V == 1 {
				sb.WriteString("true")
			} else {
				sb.WriteString("false")
			}
		case SF64:
			fmt.Fprintf(sb, "%g", t.FVal())
		default:
			fmt.Fprintf(sb, "%d", t.V)
		}
	case KVar:
		sb.WriteString(t.Name)
	default:
		sb.WriteByte('(')
		sb.WriteString(kindNames[t.K])
		if t.K == KZExt || t.K == KSExt || t.K == KTrunc || t.K == KFToU || t.K == KFToS {
			fmt.Fprintf(sb, "%d", t.W)
		}
		for _, x := range []*Term{t.C, t.A, t.B} {
			if x != nil {
				sb.WriteByte(' ')
				x.str(sb, depth+1)
			}
		}
		sb.WriteByte(')')
	}
}

// Vars collects the variables of t into set (keyed by ID).
func Vars(t *Term, set map[int]*Term, seen map[int]bool) {
	if t == nil || seen[t.ID] {
		return
	}
	seen[t.ID] = true
	if t.K == KVar {
		set[t.ID] = t
		return
	}
	Vars(t.A, set, seen)
	Vars(t.B, set, seen)
	Vars(t.C, set, seen)
}
