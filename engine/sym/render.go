package sym

import (
	"fmt"
	"math"
	"math/bits"
	"strconv"
	"strings"
)

// Mode selects the SMT rendering.
type Mode int

const (
	ModeInt Mode = iota
	ModeBV
)

func pow2s(n uint) string {
	if n < 64 {
		return strconv.FormatUint(uint64(1)<<n, 10)
	}
	if n == 64 {
		return "18446744073709551616"
	}
	panic("pow2s")
}

func u(v uint64) string { return strconv.FormatUint(v, 10) }

// RenderInt renders an SInt term as an Int expression in [0,2^w), a bool term
// as a Bool expression. Float terms need FP theory (rendered via int2bv).
func (tb *TB) RenderInt(t *Term) string {
	if t.rInt != "" {
		return t.rInt
	}
	s := tb.renderInt(t)
	t.rInt = s
	return s
}

func (tb *TB) signedInt(t *Term) string {
	// signed interpretation of an unsigned-represented Int
	half := uint64(1) << (t.W - 1)
	a := tb.RenderInt(t)
	if t.Hi < half {
		return a
	}
	return "(ite (>= " + a + " " + u(half) + ") (- " + a + " " + pow2s(uint(t.W)) + ") " + a + ")"
}

func (tb *TB) wrapInt(e string, w uint8) string {
	return "(mod " + e + " " + pow2s(uint(w)) + ")"
}

func (tb *TB) bvOfInt(t *Term) string {
	return "((_ int2bv " + strconv.Itoa(int(t.W)) + ") " + tb.RenderInt(t) + ")"
}

// runs of a constant mask: list of (lo bit, length)
func maskRuns(m uint64) [][2]uint {
	var r [][2]uint
	i := uint(0)
	for i < 64 {
		if m&(1<<i) != 0 {
			j := i
			for j < 64 && m&(1<<j) != 0 {
				j++
			}
			r = append(r, [2]uint{i, j - i})
			i = j
		} else {
			i++
		}
	}
	return r
}

func (tb *TB) renderInt(t *Term) string {
	w := t.W
	switch t.K {
	case KConst:
		switch t.S {
		case SBool:
			if t.V == 1 {
				return "true"
			}
			return "false"
		case SF64:
			return tb.renderFP(t)
		}
		return u(t.V)
	case KVar:
		return t.Name
	case KAdd:
		e := "(+ " + tb.RenderInt(t.A) + " " + tb.RenderInt(t.B) + ")"
		if tb.addWraps(t) {
			return tb.wrapInt(e, w)
		}
		return e
	case KSub:
		e := "(- " + tb.RenderInt(t.A) + " " + tb.RenderInt(t.B) + ")"
		if tb.subWraps(t) {
			return tb.wrapInt(e, w)
		}
		return e
	case KMul:
		e := "(* " + tb.RenderInt(t.A) + " " + tb.RenderInt(t.B) + ")"
		h, l := bits.Mul64(t.A.Hi, t.B.Hi)
		if h != 0 || l > mask(w) {
			return tb.wrapInt(e, w)
		}
		return e
	case KUDiv:
		return "(div " + tb.RenderInt(t.A) + " " + tb.RenderInt(t.B) + ")"
	case KURem:
		return "(mod " + tb.RenderInt(t.A) + " " + tb.RenderInt(t.B) + ")"
	case KSDiv, KSRem:
		a, b := tb.signedInt(t.A), tb.signedInt(t.B)
		// truncated division from euclidean div: q = sgn * (|a| div |b|)
		abs := func(x string) string { return "(ite (< " + x + " 0) (- " + x + ") " + x + ")" }
		q := "(div " + abs(a) + " " + abs(b) + ")"
		q = "(ite (= (< " + a + " 0) (< " + b + " 0)) " + q + " (- " + q + "))"
		if t.K == KSDiv {
			return tb.wrapInt(q, w)
		}
		return tb.wrapInt("(- "+a+" (* "+b+" "+q+"))", w)
	case KAnd:
		if t.B.IsConst() {
			a := tb.RenderInt(t.A)
			m := t.B.V
			if m&(m+1) == 0 { // low mask
				return "(mod " + a + " " + u(m+1) + ")"
			}
			var parts []string
			for _, r := range maskRuns(m) {
				x := a
				if r[0] > 0 {
					x = "(div " + x + " " + pow2s(r[0]) + ")"
				}
				if r[0]+r[1] < uint(w) {
					x = "(mod " + x + " " + pow2s(r[1]) + ")"
				}
				if r[0] > 0 {
					x = "(* " + x + " " + pow2s(r[0]) + ")"
				}
				parts = append(parts, x)
			}
			if len(parts) == 1 {
				return parts[0]
			}
			return "(+ " + strings.Join(parts, " ") + ")"
		}
		return "(bv2nat (bvand " + tb.bvOfInt(t.A) + " " + tb.bvOfInt(t.B) + "))"
	case KOr:
		if t.B.IsConst() {
			// a | m = a + (m - (a & m))
			am := tb.RenderInt(tb.And(t.A, t.B))
			return "(+ " + tb.RenderInt(t.A) + " (- " + u(t.B.V) + " " + am + "))"
		}
		return "(bv2nat (bvor " + tb.bvOfInt(t.A) + " " + tb.bvOfInt(t.B) + "))"
	case KXor:
		if t.B.IsConst() {
			// a ^ m = a + m - 2*(a&m)
			am := tb.RenderInt(tb.And(t.A, t.B))
			return "(- (+ " + tb.RenderInt(t.A) + " " + u(t.B.V) + ") (* 2 " + am + "))"
		}
		return "(bv2nat (bvxor " + tb.bvOfInt(t.A) + " " + tb.bvOfInt(t.B) + "))"
	case KShl:
		if t.B.IsConst() {
			e := "(* " + tb.RenderInt(t.A) + " " + pow2s(uint(t.B.V)) + ")"
			if bits.Len64(t.A.Hi)+int(t.B.V) > int(w) {
				return tb.wrapInt(e, w)
			}
			return e
		}
		return "(bv2nat (bvshl " + tb.bvOfInt(t.A) + " " + tb.bvOfInt(t.B) + "))"
	case KLShr:
		if t.B.IsConst() {
			return "(div " + tb.RenderInt(t.A) + " " + pow2s(uint(t.B.V)) + ")"
		}
		return "(bv2nat (bvlshr " + tb.bvOfInt(t.A) + " " + tb.bvOfInt(t.B) + "))"
	case KAShr:
		if t.B.IsConst() {
			sh := t.B.V
			if sh >= uint64(w) {
				sh = uint64(w) - 1
			}
			return tb.wrapInt("(div "+tb.signedInt(t.A)+" "+pow2s(uint(sh))+")", w)
		}
		return "(bv2nat (bvashr " + tb.bvOfInt(t.A) + " " + tb.bvOfInt(t.B) + "))"
	case KNot:
		return "(- " + u(mask(w)) + " " + tb.RenderInt(t.A) + ")"
	case KZExt:
		return tb.RenderInt(t.A)
	case KSExt:
		a := tb.RenderInt(t.A)
		half := uint64(1) << (t.A.W - 1)
		var diff string
		if w == 64 {
			diff = "(- 18446744073709551616 " + pow2s(uint(t.A.W)) + ")"
		} else {
			diff = u((uint64(1) << w) - (uint64(1) << t.A.W))
		}
		return "(ite (>= " + a + " " + u(half) + ") (+ " + a + " " + diff + ") " + a + ")"
	case KTrunc:
		if t.A.Hi <= mask(w) {
			return tb.RenderInt(t.A)
		}
		return "(mod " + tb.RenderInt(t.A) + " " + pow2s(uint(w)) + ")"
	case KIte:
		return "(ite " + tb.RenderInt(t.C) + " " + tb.RenderInt(t.A) + " " + tb.RenderInt(t.B) + ")"
	case KEq:
		return "(= " + tb.RenderInt(t.A) + " " + tb.RenderInt(t.B) + ")"
	case KUlt:
		return "(< " + tb.RenderInt(t.A) + " " + tb.RenderInt(t.B) + ")"
	case KUle:
		return "(<= " + tb.RenderInt(t.A) + " " + tb.RenderInt(t.B) + ")"
	case KSlt:
		return "(< " + tb.signedInt(t.A) + " " + tb.signedInt(t.B) + ")"
	case KSle:
		return "(<= " + tb.signedInt(t.A) + " " + tb.signedInt(t.B) + ")"
	case KBAnd:
		return "(and " + tb.RenderInt(t.A) + " " + tb.RenderInt(t.B) + ")"
	case KBOr:
		return "(or " + tb.RenderInt(t.A) + " " + tb.RenderInt(t.B) + ")"
	case KBNot:
		return "(not " + tb.RenderInt(t.A) + ")"
	case KFToU:
		return "(bv2nat ((_ fp.to_ubv " + strconv.Itoa(int(w)) + ") RTZ " + tb.renderFP(t.A) + "))"
	case KFToS:
		return "(bv2nat ((_ fp.to_sbv " + strconv.Itoa(int(w)) + ") RTZ " + tb.renderFP(t.A) + "))"
	case KFLt, KFLe, KFEq:
		return tb.renderFP(t)
	}
	if t.S == SF64 {
		return tb.renderFP(t)
	}
	panic("renderInt: unhandled kind " + kindNames[t.K])
}

// renderFP renders float terms (and float comparisons). Integer operands are
// taken from the current mode via bvOf.
func (tb *TB) renderFP(t *Term) string {
	return tb.renderFPm(t, ModeInt)
}

func (tb *TB) renderFPm(t *Term, m Mode) string {
	bvOf := func(x *Term) string {
		if m == ModeBV {
			return tb.RenderBV(x)
		}
		return tb.bvOfInt(x)
	}
	r := func(x *Term) string { return tb.renderFPm(x, m) }
	switch t.K {
	case KConst:
		f := t.FVal()
		if math.IsNaN(f) || math.IsInf(f, 0) {
			panic("renderFP: nan/inf const")
		}
		return fmt.Sprintf("((_ to_fp 11 53) #x%016x)", t.V)
	case KFFromBits:
		if t.A.W == 32 {
			return "((_ to_fp 11 53) RNE ((_ to_fp 8 24) " + bvOf(t.A) + "))"
		}
		return "((_ to_fp 11 53) " + bvOf(t.A) + ")"
	case KFFromU:
		return "((_ to_fp_unsigned 11 53) RNE " + bvOf(t.A) + ")"
	case KFFromS:
		return "((_ to_fp 11 53) RNE " + bvOf(t.A) + ")"
	case KFAdd:
		return "(fp.add RNE " + r(t.A) + " " + r(t.B) + ")"
	case KFSub:
		return "(fp.sub RNE " + r(t.A) + " " + r(t.B) + ")"
	case KFMul:
		return "(fp.mul RNE " + r(t.A) + " " + r(t.B) + ")"
	case KFDiv:
		return "(fp.div RNE " + r(t.A) + " " + r(t.B) + ")"
	case KFNeg:
		return "(fp.neg " + r(t.A) + ")"
	case KFCeil:
		return "(fp.roundToIntegral RTP " + r(t.A) + ")"
	case KFLt:
		return "(fp.lt " + r(t.A) + " " + r(t.B) + ")"
	case KFLe:
		return "(fp.leq " + r(t.A) + " " + r(t.B) + ")"
	case KFEq:
		return "(fp.eq " + r(t.A) + " " + r(t.B) + ")"
	}
	panic("renderFP: unhandled kind " + kindNames[t.K])
}

// ---- BV rendering ----

func bvConst(w uint8, v uint64) string {
	if w%4 == 0 {
		return fmt.Sprintf("#x%0*x", int(w/4), v)
	}
	return fmt.Sprintf("(_ bv%d %d)", v, w)
}

func (tb *TB) RenderBV(t *Term) string {
	if t.rBV != "" {
		return t.rBV
	}
	s := tb.renderBV(t)
	t.rBV = s
	return s
}

func (tb *TB) renderBV(t *Term) string {
	b2 := func(op string) string {
		return "(" + op + " " + tb.RenderBV(t.A) + " " + tb.RenderBV(t.B) + ")"
	}
	switch t.K {
	case KConst:
		switch t.S {
		case SBool:
			if t.V == 1 {
				return "true"
			}
			return "false"
		case SF64:
			return tb.renderFPm(t, ModeBV)
		}
		return bvConst(t.W, t.V)
	case KVar:
		return t.Name
	case KAdd:
		return b2("bvadd")
	case KSub:
		return b2("bvsub")
	case KMul:
		return b2("bvmul")
	case KUDiv:
		return b2("bvudiv")
	case KURem:
		return b2("bvurem")
	case KSDiv:
		return b2("bvsdiv")
	case KSRem:
		return b2("bvsrem")
	case KAnd:
		return b2("bvand")
	case KOr:
		return b2("bvor")
	case KXor:
		return b2("bvxor")
	case KShl:
		return b2("bvshl")
	case KLShr:
		return b2("bvlshr")
	case KAShr:
		return b2("bvashr")
	case KNot:
		return "(bvnot " + tb.RenderBV(t.A) + ")"
	case KZExt:
		return fmt.Sprintf("((_ zero_extend %d) %s)", t.W-t.A.W, tb.RenderBV(t.A))
	case KSExt:
		return fmt.Sprintf("((_ sign_extend %d) %s)", t.W-t.A.W, tb.RenderBV(t.A))
	case KTrunc:
		return fmt.Sprintf("((_ extract %d 0) %s)", t.W-1, tb.RenderBV(t.A))
	case KIte:
		return "(ite " + tb.RenderBV(t.C) + " " + tb.RenderBV(t.A) + " " + tb.RenderBV(t.B) + ")"
	case KEq:
		return b2("=")
	case KUlt:
		return b2("bvult")
	case KUle:
		return b2("bvule")
	case KSlt:
		return b2("bvslt")
	case KSle:
		return b2("bvsle")
	case KBAnd:
		return b2("and")
	case KBOr:
		return b2("or")
	case KBNot:
		return "(not " + tb.RenderBV(t.A) + ")"
	case KFToU:
		return fmt.Sprintf("((_ fp.to_ubv %d) RTZ %s)", t.W, tb.renderFPm(t.A, ModeBV))
	case KFToS:
		return fmt.Sprintf("((_ fp.to_sbv %d) RTZ %s)", t.W, tb.renderFPm(t.A, ModeBV))
	}
	if t.S == SF64 || t.K == KFLt || t.K == KFLe || t.K == KFEq {
		return tb.renderFPm(t, ModeBV)
	}
	panic("renderBV: unhandled kind " + kindNames[t.K])
}

// ---- evaluation under a model ----

// Model maps variable names to values (bools: 0/1).
type Model map[string]uint64

func (tb *TB) Eval(t *Term, m Model) uint64 {
	memo := map[int]uint64{}
	return eval(t, m, memo)
}

func eval(t *Term, m Model, memo map[int]uint64) uint64 {
	if v, ok := memo[t.ID]; ok {
		return v
	}
	v := eval1(t, m, memo)
	if t.S == SInt {
		v &= mask(t.W)
	}
	memo[t.ID] = v
	return v
}

func b2u(b bool) uint64 {
	if b {
		return 1
	}
	return 0
}

func eval1(t *Term, m Model, memo map[int]uint64) uint64 {
	ev := func(x *Term) uint64 { return eval(x, m, memo) }
	w := t.W
	switch t.K {
	case KConst:
		return t.V
	case KVar:
		if v, ok := m[t.Name]; ok {
			return v
		}
		return t.Lo // unconstrained: any in-range value
	case KAdd:
		return ev(t.A) + ev(t.B)
	case KSub:
		return ev(t.A) - ev(t.B)
	case KMul:
		return ev(t.A) * ev(t.B)
	case KUDiv:
		b := ev(t.B)
		if b == 0 {
			return 0
		}
		return ev(t.A) / b
	case KURem:
		b := ev(t.B)
		if b == 0 {
			return ev(t.A)
		}
		return ev(t.A) % b
	case KSDiv:
		a, b := sext64(ev(t.A), w), sext64(ev(t.B), w)
		if b == 0 {
			return 0
		}
		if b == -1 {
			return uint64(-a)
		}
		return uint64(a / b)
	case KSRem:
		a, b := sext64(ev(t.A), w), sext64(ev(t.B), w)
		if b == 0 || b == -1 {
			return 0
		}
		return uint64(a % b)
	case KAnd:
		return ev(t.A) & ev(t.B)
	case KOr:
		return ev(t.A) | ev(t.B)
	case KXor:
		return ev(t.A) ^ ev(t.B)
	case KShl:
		b := ev(t.B)
		if b >= uint64(w) {
			return 0
		}
		return ev(t.A) << b
	case KLShr:
		b := ev(t.B)
		if b >= uint64(w) {
			return 0
		}
		return ev(t.A) >> b
	case KAShr:
		b := ev(t.B)
		if b >= uint64(w) {
			b = uint64(w) - 1
		}
		return uint64(sext64(ev(t.A), w) >> b)
	case KNot:
		return ^ev(t.A)
	case KZExt:
		return ev(t.A)
	case KSExt:
		return uint64(sext64(ev(t.A), t.A.W))
	case KTrunc:
		return ev(t.A)
	case KIte:
		if ev(t.C) != 0 {
			return ev(t.A)
		}
		return ev(t.B)
	case KEq:
		return b2u(ev(t.A) == ev(t.B))
	case KUlt:
		return b2u(ev(t.A) < ev(t.B))
	case KUle:
		return b2u(ev(t.A) <= ev(t.B))
	case KSlt:
		return b2u(sext64(ev(t.A), t.A.W) < sext64(ev(t.B), t.A.W))
	case KSle:
		return b2u(sext64(ev(t.A), t.A.W) <= sext64(ev(t.B), t.A.W))
	case KBAnd:
		return b2u(ev(t.A) != 0 && ev(t.B) != 0)
	case KBOr:
		return b2u(ev(t.A) != 0 || ev(t.B) != 0)
	case KBNot:
		return b2u(ev(t.A) == 0)
	case KFFromBits:
		if t.A.W == 32 {
			return math.Float64bits(float64(math.Float32frombits(uint32(ev(t.A)))))
		}
		return ev(t.A)
	case KFFromU:
		return math.Float64bits(float64(ev(t.A)))
	case KFFromS:
		return math.Float64bits(float64(sext64(ev(t.A), t.A.W)))
	case KFAdd:
		return math.Float64bits(math.Float64frombits(ev(t.A)) + math.Float64frombits(ev(t.B)))
	case KFSub:
		return math.Float64bits(math.Float64frombits(ev(t.A)) - math.Float64frombits(ev(t.B)))
	case KFMul:
		return math.Float64bits(math.Float64frombits(ev(t.A)) * math.Float64frombits(ev(t.B)))
	case KFDiv:
		return math.Float64bits(math.Float64frombits(ev(t.A)) / math.Float64frombits(ev(t.B)))
	case KFNeg:
		return math.Float64bits(-math.Float64frombits(ev(t.A)))
	case KFCeil:
		return math.Float64bits(math.Ceil(math.Float64frombits(ev(t.A))))
	case KFToU:
		return uint64(math.Float64frombits(ev(t.A)))
	case KFToS:
		return uint64(int64(math.Float64frombits(ev(t.A))))
	case KFLt:
		return b2u(math.Float64frombits(ev(t.A)) < math.Float64frombits(ev(t.B)))
	case KFLe:
		return b2u(math.Float64frombits(ev(t.A)) <= math.Float64frombits(ev(t.B)))
	case KFEq:
		return b2u(math.Float64frombits(ev(t.A)) == math.Float64frombits(ev(t.B)))
	}
	panic("eval: unhandled kind " + kindNames[t.K])
}
