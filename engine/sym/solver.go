package sym

import (
	"bufio"
	"fmt"
	"io"
	"os"
	"os/exec"
	"strconv"
	"strings"
	"sync/atomic"
	"time"
)

type Verdict int

const (
	Sat Verdict = iota
	Unsat
	Unknown
	Error
)

func (v Verdict) String() string {
	return [...]string{"sat", "unsat", "unknown", "error"}[v]
}

// Solver drives one long-lived SMT solver process with an assertion stack.
type Solver struct {
	Name  string // "z3" or "cvc5"
	Mode  Mode
	tb    *TB
	cmd   *exec.Cmd
	in    io.WriteCloser
	out   *bufio.Reader
	level int
	// vars whose declaration exists (global) and the level at which their range
	// assertion currently lives (-1: not asserted)
	declared  map[string]bool
	rangeLvl  map[int]int
	lvlRanges [][]int // per level: var ids range-asserted at this level
	Stats     SolverStats
	TimeoutMs int
	Log       io.Writer
	LogChecks int // number of check-sat commands logged so far
	LogLimit  int // stop logging after this many check-sat commands (0 = no limit)
	// log for rebuilding the stack in a replacement process (see restart)
	decls     []string
	hist      [][]string
	replaying bool
}

type SolverStats struct {
	Sat, Unsat, Unknown, Errors int
	Killed                      int // queries ended by the watchdog (counted as unknown)
	Time                        time.Duration
	MaxQuery                    time.Duration
}

func solverPath(name string) (string, []string) {
	switch name {
	case "z3":
		p := "z3-new"
		if e := os.Getenv("VSYM_Z3"); e != "" {
			p = e
		}
		return p, []string{"-in"}
	case "z3old":
		return "/usr/bin/z3", []string{"-in"}
	case "cvc5":
		return "cvc5", []string{"--incremental", "--produce-models", "--global-declarations", "--fp-exp", "-q"}
	}
	panic("unknown solver " + name)
}

func NewSolver(name string, mode Mode, tb *TB, timeoutMs int) (*Solver, error) {
	s := &Solver{Name: name, Mode: mode, tb: tb, TimeoutMs: timeoutMs}
	if err := s.start(); err != nil {
		return nil, err
	}
	return s, nil
}

func (s *Solver) start() error {
	p, args := solverPath(s.Name)
	if s.Name == "cvc5" && s.TimeoutMs > 0 {
		args = append(args, "--tlimit-per="+strconv.Itoa(s.TimeoutMs))
	}
	cmd := exec.Command(p, args...)
	in, err := cmd.StdinPipe()
	if err != nil {
		return err
	}
	out, err := cmd.StdoutPipe()
	if err != nil {
		return err
	}
	cmd.Stderr = cmd.Stdout
	if err := cmd.Start(); err != nil {
		return err
	}
	s.cmd, s.in, s.out = cmd, in, bufio.NewReaderSize(out, 1<<16)
	s.level = 0
	s.declared = map[string]bool{}
	s.rangeLvl = map[int]int{}
	s.lvlRanges = [][]int{nil}
	if strings.HasPrefix(s.Name, "z3") {
		s.send("(set-option :global-declarations true)")
		if s.TimeoutMs > 0 {
			s.send(fmt.Sprintf("(set-option :timeout %d)", s.TimeoutMs))
		}
	} else {
		s.send("(set-logic ALL)")
	}
	return nil
}

func (s *Solver) Close() {
	if s.cmd != nil {
		s.in.Close()
		s.cmd.Process.Kill()
		s.cmd.Wait()
		s.cmd = nil
	}
}

// Reset restarts the assertion stack (cheap: pops to level 0).
func (s *Solver) Reset() {
	s.PopTo(0)
}

func (s *Solver) send(line string) {
	if s.Log != nil && (s.LogLimit == 0 || s.LogChecks < s.LogLimit) {
		fmt.Fprintln(s.Log, line)
	}
	if !s.replaying {
		// what a restarted solver process has to be told again (see restart)
		switch {
		case strings.HasPrefix(line, "(declare-"):
			s.decls = append(s.decls, line)
		case strings.HasPrefix(line, "(assert "):
			for len(s.hist) <= s.level {
				s.hist = append(s.hist, nil)
			}
			s.hist[s.level] = append(s.hist[s.level], line)
		}
	}
	io.WriteString(s.in, line)
	io.WriteString(s.in, "\n")
}

// restart replaces a solver process that was killed by the watchdog (a query
// that ignored its own time limit) and rebuilds the assertion stack from the
// log: declarations, then the assertions of every level with the pushes
// between them.
func (s *Solver) restart() error {
	if s.cmd != nil {
		s.in.Close()
		s.cmd.Process.Kill()
		s.cmd.Wait()
		s.cmd = nil
	}
	level, declared, rangeLvl, lvlRanges := s.level, s.declared, s.rangeLvl, s.lvlRanges
	if err := s.start(); err != nil {
		return err
	}
	s.declared, s.rangeLvl, s.lvlRanges = declared, rangeLvl, lvlRanges
	s.replaying = true
	for _, d := range s.decls {
		s.send(d)
	}
	for l := 0; l <= level; l++ {
		if l < len(s.hist) {
			for _, a := range s.hist[l] {
				s.send(a)
			}
		}
		if l < level {
			s.send("(push 1)")
		}
	}
	s.replaying = false
	s.level = level
	return nil
}

func (s *Solver) Level() int { return s.level }

func (s *Solver) Push() {
	s.send("(push 1)")
	s.level++
	s.lvlRanges = append(s.lvlRanges, nil)
}

func (s *Solver) PopTo(level int) {
	if level >= s.level {
		return
	}
	n := s.level - level
	s.send(fmt.Sprintf("(pop %d)", n))
	for l := s.level; l > level; l-- {
		for _, id := range s.lvlRanges[l] {
			delete(s.rangeLvl, id)
		}
	}
	s.lvlRanges = s.lvlRanges[:level+1]
	s.level = level
	if len(s.hist) > level+1 {
		s.hist = s.hist[:level+1]
	}
}

func (s *Solver) render(t *Term) string {
	if s.Mode == ModeBV {
		return s.tb.RenderBV(t)
	}
	return s.tb.RenderInt(t)
}

// declare vars of t and assert their ranges at the current level if needed.
func (s *Solver) prepare(t *Term) {
	vs := map[int]*Term{}
	Vars(t, vs, map[int]bool{})
	if len(vs) == 0 {
		return
	}
	ids := make([]int, 0, len(vs))
	for id := range vs {
		ids = append(ids, id)
	}
	// deterministic order
	for i := 1; i < len(ids); i++ {
		for j := i; j > 0 && ids[j-1] > ids[j]; j-- {
			ids[j-1], ids[j] = ids[j], ids[j-1]
		}
	}
	for _, id := range ids {
		v := vs[id]
		if !s.declared[v.Name] {
			s.declared[v.Name] = true
			switch {
			case v.S == SBool:
				s.send("(declare-const " + v.Name + " Bool)")
			case s.Mode == ModeBV:
				s.send(fmt.Sprintf("(declare-const %s (_ BitVec %d))", v.Name, v.W))
			default:
				s.send("(declare-const " + v.Name + " Int)")
			}
		}
		if v.S != SInt {
			continue
		}
		if _, ok := s.rangeLvl[id]; ok {
			continue
		}
		if s.Mode == ModeBV {
			m := mask(v.W)
			if v.Lo == 0 && v.Hi == m {
				continue
			}
			var cs []string
			if v.Lo > 0 {
				cs = append(cs, "(bvule "+bvConst(v.W, v.Lo)+" "+v.Name+")")
			}
			if v.Hi < m {
				cs = append(cs, "(bvule "+v.Name+" "+bvConst(v.W, v.Hi)+")")
			}
			s.send("(assert (and " + strings.Join(cs, " ") + " true))")
		} else {
			s.send("(assert (and (<= " + u(v.Lo) + " " + v.Name + ") (<= " + v.Name + " " + u(v.Hi) + ")))")
		}
		s.rangeLvl[id] = s.level
		s.lvlRanges[s.level] = append(s.lvlRanges[s.level], id)
	}
}

func (s *Solver) Assert(t *Term) {
	if t.IsTrue() {
		return
	}
	s.prepare(t)
	s.send("(assert " + s.render(t) + ")")
}

func (s *Solver) readLine() (string, error) {
	line, err := s.out.ReadString('\n')
	return strings.TrimSpace(line), err
}

// Check runs check-sat on the current stack.
func (s *Solver) Check() Verdict {
	t0 := time.Now()
	s.send("(check-sat)")
	errSeen := false
	var v Verdict
	// watchdog: a query that ignores the solver's own time limit (seen: one z3
	// query running for hours under :timeout 120000) is killed after three
	// times the limit; the verdict is "unknown", the process is replaced and
	// the assertion stack rebuilt
	var fired atomic.Bool
	if s.TimeoutMs > 0 && s.cmd != nil {
		proc := s.cmd.Process
		delay := 3*time.Duration(s.TimeoutMs)*time.Millisecond + 15*time.Second
		if e := os.Getenv("VSYM_WATCHDOG_MS"); e != "" { // for testing the restart path
			if ms, err := strconv.Atoi(e); err == nil {
				delay = time.Duration(ms) * time.Millisecond
			}
		}
		wd := time.AfterFunc(delay, func() {
			fired.Store(true)
			proc.Kill()
		})
		defer wd.Stop()
	}
	for {
		line, err := s.readLine()
		if err != nil {
			if fired.Load() {
				s.Stats.Unknown++
				s.Stats.Killed++
				s.Stats.Time += time.Since(t0)
				if rerr := s.restart(); rerr != nil {
					s.Stats.Errors++
					return Error
				}
				return Unknown
			}
			// solver died: report error
			s.Stats.Errors++
			return Error
		}
		if line == "" {
			continue
		}
		switch {
		case line == "sat":
			v = Sat
		case line == "unsat":
			v = Unsat
		case line == "unknown" || strings.HasPrefix(line, "timeout"):
			v = Unknown
		case strings.HasPrefix(line, "(error"):
			errSeen = true
			if s.Log != nil {
				fmt.Fprintln(s.Log, ";; "+line)
			} else {
				fmt.Fprintln(os.Stderr, "solver error:", line)
			}
			if strings.Contains(line, "interrupted") || strings.Contains(line, "timeout") {
				// cvc5 reports time limit as an error followed by no verdict
			}
			continue
		default:
			continue
		}
		break
	}
	if s.Log != nil && (s.LogLimit == 0 || s.LogChecks < s.LogLimit) {
		fmt.Fprintf(s.Log, ";; verdict %s\n", v)
	}
	s.LogChecks++
	d := time.Since(t0)
	s.Stats.Time += d
	if d > s.Stats.MaxQuery {
		s.Stats.MaxQuery = d
	}
	if errSeen {
		s.Stats.Errors++
		return Error
	}
	switch v {
	case Sat:
		s.Stats.Sat++
	case Unsat:
		s.Stats.Unsat++
	default:
		s.Stats.Unknown++
	}
	return v
}

// CheckWith: push, assert t, check, pop.
func (s *Solver) CheckWith(t *Term) Verdict {
	if t.IsFalse() {
		return Unsat
	}
	s.Push()
	s.Assert(t)
	v := s.Check()
	s.PopTo(s.level - 1)
	return v
}

// Values queries the model (after a Sat verdict, before any pop) for vars.
func (s *Solver) Values(vars []*Term) (Model, error) {
	m := Model{}
	const chunk = 64
	for i := 0; i < len(vars); i += chunk {
		j := i + chunk
		if j > len(vars) {
			j = len(vars)
		}
		var names []string
		for _, v := range vars[i:j] {
			if s.declared[v.Name] {
				names = append(names, v.Name)
			}
		}
		if len(names) == 0 {
			continue
		}
		s.send("(get-value (" + strings.Join(names, " ") + "))")
		// read a balanced s-expression
		depth := 0
		var sb strings.Builder
		started := false
		for !started || depth > 0 {
			line, err := s.readLine()
			if err != nil {
				return nil, err
			}
			if strings.HasPrefix(line, "(error") {
				return nil, fmt.Errorf("get-value: %s", line)
			}
			for _, c := range line {
				if c == '(' {
					depth++
					started = true
				} else if c == ')' {
					depth--
				}
			}
			sb.WriteString(line)
			sb.WriteByte(' ')
		}
		if err := parseValues(sb.String(), m); err != nil {
			return nil, err
		}
	}
	return m, nil
}

func parseValues(s string, m Model) error {
	toks := tokenize(s)
	// ( ( name value ) ( name value ) ... )
	pos := 0
	expect := func(t string) error {
		if pos >= len(toks) || toks[pos] != t {
			return fmt.Errorf("parse get-value: expected %q at %d in %q", t, pos, s)
		}
		pos++
		return nil
	}
	if err := expect("("); err != nil {
		return err
	}
	for pos < len(toks) && toks[pos] == "(" {
		pos++
		name := toks[pos]
		pos++
		v, np, err := parseValue(toks, pos)
		if err != nil {
			return err
		}
		pos = np
		if err := expect(")"); err != nil {
			return err
		}
		m[name] = v
	}
	return nil
}

func parseValue(toks []string, pos int) (uint64, int, error) {
	t := toks[pos]
	switch {
	case t == "true":
		return 1, pos + 1, nil
	case t == "false":
		return 0, pos + 1, nil
	case strings.HasPrefix(t, "#x"):
		v, err := strconv.ParseUint(t[2:], 16, 64)
		return v, pos + 1, err
	case strings.HasPrefix(t, "#b"):
		v, err := strconv.ParseUint(t[2:], 2, 64)
		return v, pos + 1, err
	case t == "(":
		// (- n) or (_ bvN w)
		if toks[pos+1] == "-" {
			v, np, err := parseValue(toks, pos+2)
			if err != nil {
				return 0, 0, err
			}
			if toks[np] != ")" {
				return 0, 0, fmt.Errorf("parse value: expected )")
			}
			return -v, np + 1, nil
		}
		if toks[pos+1] == "_" && strings.HasPrefix(toks[pos+2], "bv") {
			v, err := strconv.ParseUint(toks[pos+2][2:], 10, 64)
			return v, pos + 5, err
		}
		return 0, 0, fmt.Errorf("parse value: unexpected %v", toks[pos:pos+3])
	default:
		v, err := strconv.ParseUint(t, 10, 64)
		return v, pos + 1, err
	}
}

func tokenize(s string) []string {
	var toks []string
	cur := strings.Builder{}
	flush := func() {
		if cur.Len() > 0 {
			toks = append(toks, cur.String())
			cur.Reset()
		}
	}
	for _, c := range s {
		switch c {
		case '(', ')':
			flush()
			toks = append(toks, string(c))
		case ' ', '\t', '\n', '\r':
			flush()
		default:
			cur.WriteRune(c)
		}
	}
	flush()
	return toks
}

// TermValue returns the value of an integer term in the current model
// (call right after a Sat verdict).
func (s *Solver) TermValue(t *Term) (uint64, error) {
	s.prepare(t)
	s.send("(get-value (" + s.render(t) + "))")
	depth := 0
	var sb strings.Builder
	started := false
	for !started || depth > 0 {
		line, err := s.readLine()
		if err != nil {
			return 0, err
		}
		if strings.HasPrefix(line, "(error") {
			return 0, fmt.Errorf("get-value: %s", line)
		}
		for _, c := range line {
			if c == '(' {
				depth++
				started = true
			} else if c == ')' {
				depth--
			}
		}
		sb.WriteString(line)
		sb.WriteByte(' ')
	}
	toks := tokenize(sb.String())
	// ( ( <term tokens...> value ) ) : the value is the last item before the two closing parens
	if len(toks) < 4 {
		return 0, fmt.Errorf("get-value: short reply %q", sb.String())
	}
	end := len(toks) - 2
	// value may be "(- n)" or "(_ bvN w)" or atom
	start := end - 1
	if toks[start] == ")" {
		d := 0
		for i := start; i >= 0; i-- {
			if toks[i] == ")" {
				d++
			} else if toks[i] == "(" {
				d--
				if d == 0 {
					start = i
					break
				}
			}
		}
	}
	v, _, err := parseValue(toks, start)
	return v, err
}
