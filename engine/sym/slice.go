package sym

// Bit-slice recognition: lets byte-wise disassembly and reassembly of a word
// (binary.BigEndian.PutUint64 / Uint64, CBOR heads) fold back to the word
// instead of producing div/mod chains.

type piece struct {
	base          *Term
	lo, wd, shift uint
}

// sliceOf: value(t) == (base >> lo) mod 2^wd  (as an unsigned number).
func sliceOf(t *Term) (base *Term, lo, wd uint) {
	switch t.K {
	case KTrunc:
		b, l, w := sliceOf(t.A)
		if uint(t.W) < w {
			w = uint(t.W)
		}
		return b, l, w
	case KZExt:
		return sliceOf(t.A)
	case KLShr:
		if t.B.IsConst() {
			b, l, w := sliceOf(t.A)
			c := uint(t.B.V)
			if c < w {
				return b, l + c, w - c
			}
		}
	case KUDiv:
		if t.B.IsConst() && t.B.V&(t.B.V-1) == 0 && t.B.V != 0 {
			c := uint(0)
			for v := t.B.V; v > 1; v >>= 1 {
				c++
			}
			b, l, w := sliceOf(t.A)
			if c < w {
				return b, l + c, w - c
			}
		}
	case KAnd:
		if t.B.IsConst() && t.B.V&(t.B.V+1) == 0 && t.B.V != 0 {
			k := uint(0)
			for v := t.B.V; v > 0; v >>= 1 {
				k++
			}
			b, l, w := sliceOf(t.A)
			if k < w {
				w = k
			}
			return b, l, w
		}
	case KURem:
		if t.B.IsConst() && t.B.V&(t.B.V-1) == 0 && t.B.V > 1 {
			k := uint(0)
			for v := t.B.V; v > 1; v >>= 1 {
				k++
			}
			b, l, w := sliceOf(t.A)
			if k < w {
				w = k
			}
			return b, l, w
		}
	}
	return t, 0, uint(t.W)
}

func pieceOf(t *Term) (piece, bool) {
	if t.S != SInt || t.IsConst() {
		return piece{}, false
	}
	switch t.K {
	case KShl:
		if t.B.IsConst() {
			c := uint(t.B.V)
			p, ok := pieceOf(t.A)
			if !ok || p.shift != 0 {
				return piece{}, false
			}
			if p.wd+c > uint(t.W) {
				if c >= uint(t.W) {
					return piece{}, false
				}
				p.wd = uint(t.W) - c
			}
			p.shift = c
			return p, true
		}
		return piece{}, false
	case KZExt:
		return pieceOf(t.A)
	}
	b, lo, wd := sliceOf(t)
	if wd == 0 {
		return piece{}, false
	}
	return piece{base: b, lo: lo, wd: wd}, true
}

// mkSlice builds ((base >> lo) mod 2^wd) as a term of width W.
func (tb *TB) mkSlice(base *Term, lo, wd uint, W uint8) *Term {
	t := base
	if lo > 0 {
		t = tb.LShr(t, tb.Const(t.W, uint64(lo)))
	}
	if wd < uint(t.W) {
		t = tb.Trunc(t, uint8(wd))
	}
	if t.W < W {
		t = tb.ZExt(t, W)
	} else if t.W > W {
		t = tb.Trunc(t, W)
	}
	return t
}

// tryMergePieces: a + b where both are adjacent bit-slices of the same base.
func (tb *TB) tryMergePieces(a, b *Term) *Term {
	pa, ok := pieceOf(a)
	if !ok {
		return nil
	}
	pb, ok := pieceOf(b)
	if !ok {
		return nil
	}
	if pa.base != pb.base {
		return nil
	}
	if pa.shift < pb.shift {
		pa, pb = pb, pa
	}
	// pa is the higher part
	if pa.shift != pb.shift+pb.wd || pa.lo != pb.lo+pb.wd {
		return nil
	}
	W := a.W
	if pb.shift+pb.wd+pa.wd > uint(W) {
		return nil
	}
	s := tb.mkSlice(pa.base, pb.lo, pa.wd+pb.wd, W)
	if pb.shift > 0 {
		s = tb.Shl(s, tb.Const(W, uint64(pb.shift)))
	}
	return s
}
