package exec

import (
	"strings"
)

type mapEntry struct {
	key  value
	ks   string // canonical key (if concrete)
	conc bool
	val  value
	live bool
}

// symMap: insertion-ordered association list with a hash index for concrete keys.
type symMap struct {
	entries []*mapEntry
	index   map[string]*mapEntry
	nsym    int // live entries with symbolic keys
	nlive   int
}

func newSymMap() *symMap {
	return &symMap{index: map[string]*mapEntry{}}
}

func (m *symMap) length() int { return m.nlive }

func (m *symMap) find(w *Worker, key value) *mapEntry {
	var sb strings.Builder
	conc := keyString(key, &sb)
	if conc && m.nsym == 0 {
		return m.index[sb.String()]
	}
	if conc {
		if e, ok := m.index[sb.String()]; ok {
			return e
		}
	}
	for _, e := range m.entries {
		if !e.live {
			continue
		}
		if conc && e.conc {
			continue // distinct concrete keys
		}
		c := w.eqv(e.key, key)
		if c.IsFalse() {
			continue
		}
		if w.branch(c) {
			return e
		}
	}
	return nil
}

func (m *symMap) update(w *Worker, key, val value) {
	if e := m.find(w, key); e != nil {
		e.val = copyVal(val)
		return
	}
	var sb strings.Builder
	conc := keyString(key, &sb)
	e := &mapEntry{key: copyVal(key), conc: conc, val: copyVal(val), live: true}
	if conc {
		e.ks = sb.String()
		m.index[e.ks] = e
	} else {
		m.nsym++
	}
	m.entries = append(m.entries, e)
	m.nlive++
}

func (m *symMap) remove(w *Worker, key value) {
	e := m.find(w, key)
	if e == nil {
		return
	}
	e.live = false
	m.nlive--
	if e.conc {
		delete(m.index, e.ks)
	} else {
		m.nsym--
	}
	// compact occasionally
	if len(m.entries) > 32 && m.nlive < len(m.entries)/2 {
		var ne []*mapEntry
		for _, x := range m.entries {
			if x.live {
				ne = append(ne, x)
			}
		}
		m.entries = ne
	}
}

func (m *symMap) clear() {
	for _, e := range m.entries {
		e.live = false
	}
	m.entries = nil
	m.index = map[string]*mapEntry{}
	m.nsym, m.nlive = 0, 0
}

type mapIter struct {
	m    *symMap
	rest []*mapEntry
}

func (m *symMap) iterator(w *Worker) iter {
	if m == nil {
		return &mapIter{}
	}
	w.noteMapRead(m)
	rest := make([]*mapEntry, 0, m.nlive)
	for _, e := range m.entries {
		if e.live {
			rest = append(rest, e)
		}
	}
	return &mapIter{m: m, rest: rest}
}

func (it *mapIter) next(w *Worker) tuple {
	// drop entries deleted since the snapshot
	j := 0
	for _, e := range it.rest {
		if e.live {
			it.rest[j] = e
			j++
		}
	}
	it.rest = it.rest[:j]
	if len(it.rest) == 0 {
		return tuple{w.tb.False, nil, nil}
	}
	k := 0
	if w.h.MapOrderAny && len(it.rest) > 1 {
		alts := make([]T, len(it.rest))
		k = w.decide(alts, false, "maporder")
	}
	e := it.rest[k]
	it.rest = append(it.rest[:k:k], it.rest[k+1:]...)
	return tuple{w.tb.True, copyVal(e.key), copyVal(e.val)}
}
