package exec

import (
	"os"
	"fmt"
	"go/token"
	"go/types"
	"strings"
	"unsafe"

	"github.com/fxamacker/circlehash"
	"github.com/zeebo/blake3"
	"golang.org/x/tools/go/ssa"

	"vsym/sym"
)

type intrinsic func(fr *frame, args []value) value

type poolState struct {
	items []value
	clks  []vclock // happens-before: Put of an item -> Get of the same item
}

func (w *Worker) intrinsicFor(fn *ssa.Function) intrinsic {
	if in, ok := w.intr[fn]; ok {
		return in
	}
	in := w.findIntrinsic(fn)
	w.intr[fn] = in
	return in
}

func nop(fr *frame, args []value) value { return nil }

func (w *Worker) findIntrinsic(fn *ssa.Function) intrinsic {
	name := fn.String()
	if fn.Pkg == w.eng.Pkg && strings.HasPrefix(fn.Name(), "vh") {
		if in, ok := vhIntrinsics[fn.Name()]; ok {
			return in
		}
		return nil
	}
	if in, ok := stdIntrinsics[name]; ok {
		return in
	}
	if o := fn.Origin(); o != nil {
		if in, ok := stdIntrinsics[o.String()]; ok {
			return in
		}
	}
	// package initialisers of dependencies: only a whitelist is executed, in
	// best-effort mode (an initialiser statement that the engine cannot
	// execute leaves its variable zeroed); all others are skipped.
	if fn.Name() == "init" && fn.Pkg != nil && fn.Pkg != w.eng.Pkg && fn.Signature.Recv() == nil && fn.Synthetic != "" {
		path := fn.Pkg.Pkg.Path()
		if bestEffortInitPkgs[path] {
			return func(fr *frame, args []value) value {
				fr.w.bestEffortInit(fn)
				return nil
			}
		}
		if optInInitPkgs[path] != "" {
			key := optInInitPkgs[path]
			return func(fr *frame, args []value) value {
				if fr.w.h.Init[key] {
					fr.w.bestEffortInit(fn)
				}
				return nil
			}
		}
		return nop
	}
	if name == "github.com/fxamacker/circlehash.Hash64Uint64x2" {
		// seed derivation in NewMap: modelled as a fixed mixing function of its
		// (concrete) arguments; harness digesters do not use the seed.
		return func(fr *frame, a []value) value {
			x, y, z := a[0].(T), a[1].(T), a[2].(T)
			if !x.IsConst() || !y.IsConst() || !z.IsConst() {
				fr.w.unsupported("circlehash.Hash64Uint64x2 on symbolic input")
			}
			h := x.V*0x9E3779B97F4A7C15 ^ (y.V+0x632BE59BD9B4E019)*0xBF58476D1CE4E5B9 ^ z.V
			h ^= h >> 31
			return fr.w.tb.Const(64, h|1)
		}
	}
	// real hash functions on concrete inputs: computed by the real libraries
	// linked into the engine (digests of byte-level keys are then concrete)
	switch name {
	case "github.com/fxamacker/circlehash.Hash64":
		return func(fr *frame, a []value) value {
			msg, ok := concreteBytes(a[0])
			seed := a[1].(T)
			if !ok || !seed.IsConst() {
				fr.w.unsupported("circlehash.Hash64 on symbolic input (use a harness digester)")
			}
			return fr.w.tb.Const(64, circlehash.Hash64(msg, seed.V))
		}
	case "github.com/zeebo/blake3.Sum256":
		return func(fr *frame, a []value) value {
			msg, ok := concreteBytes(a[0])
			if !ok {
				fr.w.unsupported("blake3.Sum256 on symbolic input (use a harness digester)")
			}
			sum := blake3.Sum256(msg)
			out := make(array, 32)
			for i := range out {
				out[i] = fr.w.tb.Const(8, uint64(sum[i]))
			}
			return out
		}
	}
	if fn.Pkg != nil {
		switch fn.Pkg.Pkg.Path() {
		case "github.com/fxamacker/circlehash", "github.com/zeebo/blake3", "lukechampine.com/blake3":
			return func(fr *frame, args []value) value {
				fr.w.unsupported("hash function %s is not encoded (use a harness digester)", name)
				return nil
			}
		}
	}
	return nil
}

// packages initialised only for harnesses that ask for them (//vh:init <key>)
var optInInitPkgs = map[string]string{
	"github.com/fxamacker/cbor/v2": "cbor",
}

var bestEffortInitPkgs = map[string]bool{
	"bytes":                        true,
	"io":                           true,
	"errors":                       true,
	"encoding/binary":              true,
}

func concreteBytes(v value) ([]byte, bool) {
	s, ok := v.([]value)
	if !ok {
		return nil, false
	}
	out := make([]byte, len(s))
	for i, e := range s {
		t, ok := e.(T)
		if !ok || !t.IsConst() {
			return nil, false
		}
		out[i] = byte(t.V)
	}
	return out, true
}

func str(v value) string {
	s, ok := v.(string)
	if !ok {
		panic(fmt.Sprintf("expected concrete string, got %T", v))
	}
	return s
}

func boolsOf(v value) []T {
	var out []T
	for _, x := range v.([]value) {
		out = append(out, x.(T))
	}
	return out
}

var vhIntrinsics map[string]intrinsic

func init() {
	vhIntrinsics = map[string]intrinsic{
		"vhU8":  func(fr *frame, a []value) value { return fr.w.newSym(str(a[0]), 8, 0, 0xff) },
		"vhU16": func(fr *frame, a []value) value { return fr.w.newSym(str(a[0]), 16, 0, 0xffff) },
		"vhU32": func(fr *frame, a []value) value { return fr.w.newSym(str(a[0]), 32, 0, 0xffffffff) },
		"vhU64": func(fr *frame, a []value) value { return fr.w.newSym(str(a[0]), 64, 0, ^uint64(0)) },
		"vhRange": func(fr *frame, a []value) value {
			lo, hi := a[1].(T), a[2].(T)
			if !lo.IsConst() || !hi.IsConst() {
				fr.w.unsupported("vhRange with symbolic bounds")
			}
			if lo.V > hi.V {
				panic(pathEnd{kind: "assume"})
			}
			return fr.w.newSym(str(a[0]), 64, lo.V, hi.V)
		},
		"vhRange32": func(fr *frame, a []value) value {
			lo, hi := a[1].(T), a[2].(T)
			if !lo.IsConst() || !hi.IsConst() {
				fr.w.unsupported("vhRange32 with symbolic bounds")
			}
			if lo.V > hi.V {
				panic(pathEnd{kind: "assume"})
			}
			return fr.w.newSym(str(a[0]), 32, lo.V, hi.V)
		},
		"vhBool": func(fr *frame, a []value) value { return fr.w.newBoolSym(str(a[0])) },
		"vhChoose": func(fr *frame, a []value) value {
			w := fr.w
			n := w.asInt(a[1], "vhChoose n")
			if n <= 0 {
				panic(pathEnd{kind: "assume"})
			}
			name := w.freshName(str(a[0]))
			k := 0
			nodeIdx := -1
			if n > 1 {
				nodeIdx = w.cursor
				k = w.decide(make([]T, n), false, "choose:"+name)
			}
			w.vector = append(w.vector, VecEntry{Name: name, node: nodeIdx, Val: uint64(k)})
			return w.tb.Const(64, uint64(k))
		},
		"vhAssume": func(fr *frame, a []value) value { fr.w.assume(a[0].(T)); return nil },
		"vhAssert": func(fr *frame, a []value) value {
			fr.w.assertHolds(a[0].(T), str(a[1]), fr.w.curPos)
			return nil
		},
		"vhRequire": func(fr *frame, a []value) value {
			fr.w.assertKind(a[0].(T), str(a[1]), fr.w.curPos, "model")
			return nil
		},
		"vhFail": func(fr *frame, a []value) value {
			fr.w.assertHolds(fr.w.tb.False, str(a[0]), fr.w.curPos)
			return nil
		},
		"vhAll": func(fr *frame, a []value) value {
			r := fr.w.tb.True
			for _, c := range boolsOf(a[0]) {
				r = fr.w.tb.BAnd(r, c)
			}
			return r
		},
		"vhAny": func(fr *frame, a []value) value {
			r := fr.w.tb.False
			for _, c := range boolsOf(a[0]) {
				r = fr.w.tb.BOr(r, c)
			}
			return r
		},
		"vhImplies": func(fr *frame, a []value) value {
			return fr.w.tb.BOr(fr.w.tb.BNot(a[0].(T)), a[1].(T))
		},
		"vhIte": func(fr *frame, a []value) value {
			return fr.w.tb.Ite(a[0].(T), a[1].(T), a[2].(T))
		},
		"vhIte32": func(fr *frame, a []value) value {
			return fr.w.tb.Ite(a[0].(T), a[1].(T), a[2].(T))
		},
		"vhReach": func(fr *frame, a []value) value {
			w := fr.w
			w.reached = append(w.reached, str(a[0]))
			if w.live() && w.checkPC() {
				w.res.Reach[str(a[0])]++
			} else if w.live() {
				panic(pathEnd{kind: "infeasible"})
			}
			return nil
		},
		"vhDebug": func(fr *frame, a []value) value {
			// development aid: print a description of a value (error chains with their dynamic types)
			fmt.Fprintf(os.Stderr, "vhDebug %s: %s\n", str(a[0]), fr.w.describe(fr, a[1], 0))
			return nil
		},
		"vhObserve": func(fr *frame, a []value) value {
			fr.w.observes = append(fr.w.observes, observation{label: str(a[0]), t: a[1].(T)})
			return nil
		},
		"vhBound": func(fr *frame, a []value) value {
			w := fr.w
			c := a[0].(T)
			if c.IsTrue() {
				return nil
			}
			// a violated stated bound is reported, and the path is cut there
			if !c.IsFalse() && !w.branch(c) || c.IsFalse() {
				w.res.BoundHits[str(a[1])]++
				panic(pathEnd{kind: "assume"})
			}
			return nil
		},
		"vhParam": func(fr *frame, a []value) value {
			w := fr.w
			name := str(a[0])
			def := w.asInt(a[1], "vhParam default")
			if v, ok := w.eng.Opt.Params[name]; ok {
				def = v
			} else if v, ok := w.h.Params[name]; ok {
				def = v
			}
			return w.tb.Const(64, uint64(int64(def)))
		},
		"vhConcretize": func(fr *frame, a []value) value {
			w := fr.w
			max := w.asInt(a[1], "vhConcretize max")
			t := a[0].(T)
			i := w.concretize(t, max+1, "concretize")
			if i < 0 {
				w.res.BoundHits[fmt.Sprintf("vhConcretize beyond %d", max)]++
				panic(pathEnd{kind: "assume"})
			}
			return w.tb.Const(t.W, uint64(i))
		},
		"vhSetAllocLimit": func(fr *frame, a []value) value {
			fr.w.allocLimit = fr.w.asInt(a[0], "alloc limit")
			return nil
		},
		"vhSymbolic": func(fr *frame, a []value) value { return fr.w.tb.True },
		"vhIsConst": func(fr *frame, a []value) value {
			return fr.w.tb.Bool(a[0].(T).IsConst())
		},
		"vhLog": nop,
	}
}

var stdIntrinsics map[string]intrinsic

func (w *Worker) namedType(pkg, name string) types.Type {
	p := w.eng.Prog.ImportedPackage(pkg)
	if p == nil {
		w.unsupported("package %s not loaded", pkg)
	}
	return p.Type(name).Object().Type()
}

func (w *Worker) describe(fr *frame, v value, depth int) string {
	if depth > 8 {
		return "..."
	}
	switch x := v.(type) {
	case iface:
		if x.t == nil {
			return "<nil>"
		}
		out := x.t.String()
		inner := x.v
		if p, ok := inner.(*value); ok && p != nil {
			inner = *p
		}
		if st, ok := inner.(structure); ok {
			out += "{"
			for i, f := range st {
				if i > 0 {
					out += ", "
				}
				out += w.describe(fr, f, depth+1)
			}
			out += "}"
		} else {
			out += "(" + w.describe(fr, inner, depth+1) + ")"
		}
		return out
	case string:
		return fmt.Sprintf("%q", x)
	case T:
		return fmt.Sprintf("%v", x)
	case nil:
		return "nil"
	}
	return fmt.Sprintf("%T", v)
}

func (w *Worker) mkErrorString(msg string) value {
	t := types.NewPointer(w.namedType("errors", "errorString"))
	var cell value = structure{msg}
	return iface{t: t, v: &cell}
}

func (w *Worker) implementsError(t types.Type) bool {
	if t == nil {
		return false
	}
	errT := types.Universe.Lookup("error").Type().Underlying().(*types.Interface)
	return types.Implements(t, errT)
}

func (w *Worker) fmtErrorf(fr *frame, a []value) value {
	format, _ := a[0].(string)
	args := a[1].([]value)
	if strings.Contains(format, "%w") {
		for _, x := range args {
			xi := x.(iface)
			if w.implementsError(xi.t) {
				t := types.NewPointer(w.namedType("fmt", "wrapError"))
				var cell value = structure{"<" + format + ">", xi}
				return iface{t: t, v: &cell}
			}
		}
	}
	return w.mkErrorString("<" + format + ">")
}

func (w *Worker) lookupMethod(t types.Type, name string) *ssa.Function {
	ms := w.eng.Prog.MethodSets.MethodSet(t)
	for i := 0; i < ms.Len(); i++ {
		sel := ms.At(i)
		if sel.Obj().Name() == name {
			return w.eng.Prog.MethodValue(sel)
		}
	}
	return nil
}

func (w *Worker) errorsAs(fr *frame, a []value) value {
	err := a[0].(iface)
	target := a[1].(iface)
	if target.t == nil {
		w.throwRuntime("errors: target cannot be nil")
	}
	pt, ok := target.t.Underlying().(*types.Pointer)
	if !ok {
		w.throwRuntime("errors: target must be a non-nil pointer")
	}
	tt := pt.Elem()
	tp := target.v.(*value)
	itf, isIface := tt.Underlying().(*types.Interface)
	for n := 0; err.t != nil && n < 64; n++ {
		if isIface {
			if types.Implements(err.t, itf) {
				store(tp, err)
				return w.tb.True
			}
		} else if types.Identical(err.t, tt) {
			store(tp, err.v)
			return w.tb.True
		}
		if m := w.lookupMethod(err.t, "As"); m != nil && m.Signature.Params().Len() == 1 {
			r := w.call(fr, token.NoPos, m, []value{err.v, target})
			if rt, ok := r.(T); ok && w.branch(rt) {
				return w.tb.True
			}
		}
		m := w.lookupMethod(err.t, "Unwrap")
		if m == nil {
			break
		}
		res := m.Signature.Results()
		if res.Len() != 1 {
			break
		}
		if _, isSlice := res.At(0).Type().Underlying().(*types.Slice); isSlice {
			w.unsupported("errors.As over Unwrap() []error")
		}
		r := w.call(fr, token.NoPos, m, []value{err.v})
		err = r.(iface)
	}
	return w.tb.False
}

func (w *Worker) errorsIs(fr *frame, a []value) value {
	err := a[0].(iface)
	target := a[1].(iface)
	for n := 0; err.t != nil && n < 64; n++ {
		if target.t != nil && types.Identical(err.t, target.t) && types.Comparable(err.t) {
			if w.branch(w.eqv(err.v, target.v)) {
				return w.tb.True
			}
		}
		if m := w.lookupMethod(err.t, "Is"); m != nil && m.Signature.Params().Len() == 1 {
			r := w.call(fr, token.NoPos, m, []value{err.v, target})
			if rt, ok := r.(T); ok && w.branch(rt) {
				return w.tb.True
			}
		}
		m := w.lookupMethod(err.t, "Unwrap")
		if m == nil {
			break
		}
		r := w.call(fr, token.NoPos, m, []value{err.v})
		ri, ok := r.(iface)
		if !ok {
			break
		}
		err = ri
	}
	return w.tb.Bool(err.t == nil && target.t == nil)
}

// deepEq: reflect.DeepEqual on interpreter values (bool term).
func (w *Worker) deepEq(x, y value, depth int) T {
	tb := w.tb
	if depth > 64 {
		w.unsupported("reflect.DeepEqual recursion too deep")
	}
	switch x := x.(type) {
	case T:
		yt, ok := y.(T)
		if !ok || yt.S != x.S || yt.W != x.W {
			return tb.False
		}
		return tb.Eq(x, yt)
	case string:
		ys, ok := y.(string)
		return tb.Bool(ok && x == ys)
	case structure:
		ys, ok := y.(structure)
		if !ok || len(ys) != len(x) {
			return tb.False
		}
		r := tb.True
		for i := range x {
			r = tb.BAnd(r, w.deepEq(x[i], ys[i], depth+1))
		}
		return r
	case array:
		ys, ok := y.(array)
		if !ok || len(ys) != len(x) {
			return tb.False
		}
		r := tb.True
		for i := range x {
			r = tb.BAnd(r, w.deepEq(x[i], ys[i], depth+1))
		}
		return r
	case []value:
		ys, ok := y.([]value)
		if !ok || len(ys) != len(x) || (x == nil) != (ys == nil) {
			return tb.False
		}
		r := tb.True
		for i := range x {
			r = tb.BAnd(r, w.deepEq(x[i], ys[i], depth+1))
		}
		return r
	case iface:
		yi, ok := y.(iface)
		if !ok {
			return tb.False
		}
		if x.t == nil || yi.t == nil {
			return tb.Bool(x.t == nil && yi.t == nil)
		}
		if !types.Identical(x.t, yi.t) {
			return tb.False
		}
		return w.deepEq(x.v, yi.v, depth+1)
	case *value:
		yp, ok := y.(*value)
		if !ok {
			return tb.False
		}
		if x == yp {
			return tb.True
		}
		if x == nil || yp == nil {
			return tb.False
		}
		return w.deepEq(*x, *yp, depth+1)
	case *symMap:
		ym, ok := y.(*symMap)
		if !ok {
			return tb.False
		}
		if x == ym {
			return tb.True
		}
		if x == nil || ym == nil || x.length() != ym.length() {
			return tb.False
		}
		r := tb.True
		for _, e := range x.entries {
			if !e.live {
				continue
			}
			o := ym.find(w, e.key)
			if o == nil {
				return tb.False
			}
			r = tb.BAnd(r, w.deepEq(e.val, o.val, depth+1))
		}
		return r
	case *ssa.Function:
		yf, ok := y.(*ssa.Function)
		return tb.Bool(ok && x == nil && yf == nil)
	case *closure:
		return tb.False
	case nil:
		return tb.Bool(y == nil)
	}
	panic(fmt.Sprintf("deepEq: unhandled %T", x))
}

func (w *Worker) poolFor(p *value) *poolState {
	ps, ok := w.pools[p]
	if !ok {
		ps = &poolState{}
		w.pools[p] = ps
	}
	return ps
}

func init() {
	stdIntrinsics = map[string]intrinsic{
		"fmt.Errorf": func(fr *frame, a []value) value { return fr.w.fmtErrorf(fr, a) },
		"fmt.Sprintf": func(fr *frame, a []value) value {
			f, _ := a[0].(string)
			return "<" + f + ">"
		},
		"fmt.Sprint":   func(fr *frame, a []value) value { return "<sprint>" },
		"fmt.Sprintln": func(fr *frame, a []value) value { return "<sprintln>" },
		"fmt.Println": func(fr *frame, a []value) value {
			return tuple{fr.w.tb.Const(64, 0), iface{}}
		},
		"fmt.Printf": func(fr *frame, a []value) value {
			return tuple{fr.w.tb.Const(64, 0), iface{}}
		},
		"fmt.Fprintf": func(fr *frame, a []value) value {
			return tuple{fr.w.tb.Const(64, 0), iface{}}
		},
		"github.com/fxamacker/cbor/v2.Unmarshal": func(fr *frame, a []value) value {
			// only the form atree uses: Unmarshal(data, *uint64), executed through the
			// library's own stream decoder (reflection-free path)
			w := fr.w
			target := a[1].(iface)
			pt, ok := target.t.Underlying().(*types.Pointer)
			if !ok {
				w.unsupported("cbor.Unmarshal into %s", target.t)
			}
			b, ok := pt.Elem().Underlying().(*types.Basic)
			if !ok || b.Info()&types.IsInteger == 0 {
				w.unsupported("cbor.Unmarshal into %s", target.t)
			}
			signed := b.Info()&types.IsUnsigned == 0
			bits := uint8(64)
			switch b.Kind() {
			case types.Int8, types.Uint8:
				bits = 8
			case types.Int16, types.Uint16:
				bits = 16
			case types.Int32, types.Uint32:
				bits = 32
			}
			pkg := w.eng.Prog.ImportedPackage("github.com/fxamacker/cbor/v2")
			newDec := pkg.Func("NewByteStreamDecoder")
			dec := w.call(fr, token.NoPos, newDec, []value{a[0]})
			decT := types.NewPointer(pkg.Type("StreamDecoder").Object().Type())
			// integers of any Go width: an unsigned target takes a CBOR unsigned
			// integer, a signed target a CBOR unsigned or NEGATIVE integer; values
			// that do not fit the target are an error (as in the library)
			method := "DecodeUint64"
			if signed {
				method = "DecodeInt64"
			}
			m := w.lookupMethod(decT, method)
			r := w.call(fr, token.NoPos, m, []value{dec}).(tuple)
			if err := r[1].(iface); err.t != nil {
				return err
			}
			v := r[0].(T)
			if bits < 64 {
				tb := w.tb
				var fits T
				if signed {
					lo := tb.Const(64, uint64(-(int64(1) << (bits - 1))))
					hi := tb.Const(64, uint64((int64(1)<<(bits-1))-1))
					fits = tb.BAnd(tb.Sle(lo, v), tb.Sle(v, hi))
				} else {
					fits = tb.Ule(v, tb.Const(64, (uint64(1)<<bits)-1))
				}
				if !w.branch(fits) {
					return w.mkErrorString("<cbor: cannot unmarshal integer: value does not fit the target type>")
				}
				v = tb.Trunc(v, bits)
			}
			store(target.v.(*value), v)
			return iface{}
		},
		"errors.As":           func(fr *frame, a []value) value { return fr.w.errorsAs(fr, a) },
		"errors.Is":           func(fr *frame, a []value) value { return fr.w.errorsIs(fr, a) },
		"runtime/debug.Stack": func(fr *frame, a []value) value { return []value(nil) },
		"runtime.Gosched": func(fr *frame, a []value) value {
			// a scheduling point: any runnable goroutine (incl. the caller) may continue
			if w := fr.w; w.gor != nil && w.gor.sched.active {
				w.gor.sched.yield("gosched")
			}
			return nil
		},
		"math.Ceil":           func(fr *frame, a []value) value { return fr.w.tb.FCeil(a[0].(T)) },
		"math.Float64frombits": func(fr *frame, a []value) value { return fr.w.tb.FFromBits(a[0].(T)) },
		"math.Float32frombits": func(fr *frame, a []value) value { return fr.w.tb.FFromBits(a[0].(T)) },
		"math.IsNaN":           func(fr *frame, a []value) value { f := a[0].(T); return fr.w.tb.BNot(fr.w.tb.FCmp(sym.KFEq, f, f)) },
		"reflect.TypeOf":      func(fr *frame, a []value) value { return iface{} },
		"reflect.TypeFor":     func(fr *frame, a []value) value { return iface{} },
		"reflect.DeepEqual": func(fr *frame, a []value) value {
			return fr.w.deepEq(a[0], a[1], 0)
		},
		"strings.Join": func(fr *frame, a []value) value {
			var parts []string
			for _, x := range a[0].([]value) {
				parts = append(parts, x.(string))
			}
			return strings.Join(parts, a[1].(string))
		},
		"strings.HasPrefix": func(fr *frame, a []value) value {
			return fr.w.tb.Bool(strings.HasPrefix(a[0].(string), a[1].(string)))
		},
		"(*strings.Builder).WriteString": func(fr *frame, a []value) value {
			p := a[0].(*value)
			fr.w.builders[p] += a[1].(string)
			return tuple{fr.w.tb.Const(64, uint64(len(a[1].(string)))), iface{}}
		},
		"(*strings.Builder).WriteByte": func(fr *frame, a []value) value {
			p := a[0].(*value)
			c, ok := a[1].(T)
			if !ok || !c.IsConst() {
				fr.w.unsupported("strings.Builder.WriteByte of a symbolic byte")
			}
			fr.w.builders[p] += string([]byte{byte(c.V)})
			return iface{}
		},
		"(*strings.Builder).Len": func(fr *frame, a []value) value {
			return fr.w.tb.Const(64, uint64(len(fr.w.builders[a[0].(*value)])))
		},
		"(*strings.Builder).Reset": func(fr *frame, a []value) value {
			delete(fr.w.builders, a[0].(*value))
			return nil
		},
		"(*strings.Builder).String": func(fr *frame, a []value) value { return fr.w.builders[a[0].(*value)] },
		"bytes.Equal": func(fr *frame, a []value) value {
			w := fr.w
			x, y := a[0].([]value), a[1].([]value)
			if len(x) != len(y) {
				return w.tb.False
			}
			r := w.tb.True
			for i := range x {
				r = w.tb.BAnd(r, w.tb.Eq(x[i].(T), y[i].(T)))
			}
			return r
		},
		"bytes.Compare": func(fr *frame, a []value) value {
			w := fr.w
			x, y := a[0].([]value), a[1].([]value)
			n := len(x)
			if len(y) < n {
				n = len(y)
			}
			for i := 0; i < n; i++ {
				xi, yi := x[i].(T), y[i].(T)
				if w.branch(w.tb.Eq(xi, yi)) {
					continue
				}
				if w.branch(w.tb.Ult(xi, yi)) {
					return w.tb.Const(64, ^uint64(0))
				}
				return w.tb.Const(64, 1)
			}
			switch {
			case len(x) < len(y):
				return w.tb.Const(64, ^uint64(0))
			case len(x) > len(y):
				return w.tb.Const(64, 1)
			}
			return w.tb.Const(64, 0)
		},
		"(*sync.Pool).Get": func(fr *frame, a []value) value {
			w := fr.w
			p := a[0].(*value)
			ps := w.poolFor(p)
			if w.gor != nil && w.gor.sched.active {
				// with several goroutines alive the pool is a scheduling point
				w.gor.sched.yield("pool.Get")
				w.gor.sched.touch(p)
			}
			if n := len(ps.items); n > 0 {
				x := ps.items[n-1]
				ps.items = ps.items[:n-1]
				if len(ps.clks) == n {
					if w.gor != nil {
						g := w.gor.sched.cur
						g.vc = join(g.vc, ps.clks[n-1])
					}
					ps.clks = ps.clks[:n-1]
				}
				return x
			}
			// field New
			st := w.namedType("sync", "Pool").Underlying().(*types.Struct)
			for i := 0; i < st.NumFields(); i++ {
				if st.Field(i).Name() == "New" {
					nf := (*p).(structure)[i]
					switch f := nf.(type) {
					case *ssa.Function:
						if f == nil {
							return iface{}
						}
					case *closure:
						if f == nil {
							return iface{}
						}
					}
					return w.call(fr, token.NoPos, nf, nil)
				}
			}
			return iface{}
		},
		"(*sync.Pool).Put": func(fr *frame, a []value) value {
			w := fr.w
			ps := w.poolFor(a[0].(*value))
			var clk vclock
			if w.gor != nil && w.gor.sched.active {
				w.gor.sched.yield("pool.Put")
				w.gor.sched.touch(a[0].(*value))
				g := w.gor.sched.cur
				clk = g.vc.copy()
				g.vc[g.id]++
			}
			for len(ps.clks) < len(ps.items) {
				ps.clks = append(ps.clks, nil)
			}
			ps.items = append(ps.items, a[1])
			ps.clks = append(ps.clks, clk)
			return nil
		},
		"(*sync.Mutex).Lock":     nop,
		"(*sync.Mutex).Unlock":   nop,
		"(*sync.RWMutex).Lock":   nop,
		"(*sync.RWMutex).Unlock": nop,
		"(*sync.RWMutex).RLock":  nop,
		"(*sync.RWMutex).RUnlock": nop,
		"(*sync.WaitGroup).Add": func(fr *frame, a []value) value {
			fr.w.sched().wgAdd(fr.w, a[0].(*value), fr.w.asInt(a[1], "WaitGroup delta"))
			return nil
		},
		"(*sync.WaitGroup).Done": func(fr *frame, a []value) value {
			fr.w.sched().wgAdd(fr.w, a[0].(*value), -1)
			return nil
		},
		"(*sync.WaitGroup).Wait": func(fr *frame, a []value) value {
			fr.w.sched().wgWait(fr.w, a[0].(*value))
			return nil
		},
		"sort.Slice": func(fr *frame, a []value) value {
			w := fr.w
			s := a[0].(iface).v.([]value)
			less := a[1]
			lt := func(i, j int) bool {
				r := w.call(fr, token.NoPos, less, []value{w.tb.Const(64, uint64(i)), w.tb.Const(64, uint64(j))})
				return w.branch(r.(T))
			}
			for i := 1; i < len(s); i++ {
				for j := i; j > 0 && lt(j, j-1); j-- {
					s[j], s[j-1] = s[j-1], s[j]
				}
			}
			return nil
		},
		"sort.SliceIsSorted": func(fr *frame, a []value) value {
			w := fr.w
			s := a[0].(iface).v.([]value)
			less := a[1]
			for i := len(s) - 1; i > 0; i-- {
				r := w.call(fr, token.NoPos, less, []value{w.tb.Const(64, uint64(i)), w.tb.Const(64, uint64(i-1))})
				if w.branch(r.(T)) {
					return w.tb.False
				}
			}
			return w.tb.True
		},
		"slices.overlaps": func(fr *frame, a []value) value {
			x, y := a[0].([]value), a[1].([]value)
			if len(x) == 0 || len(y) == 0 {
				return fr.w.tb.False
			}
			x0, x1 := uintptr(unsafe.Pointer(&x[0])), uintptr(unsafe.Pointer(&x[len(x)-1]))
			y0, y1 := uintptr(unsafe.Pointer(&y[0])), uintptr(unsafe.Pointer(&y[len(y)-1]))
			return fr.w.tb.Bool(x0 <= y1 && y0 <= x1)
		},
		"sort.Strings": func(fr *frame, a []value) value {
			s := a[0].([]value)
			for i := 1; i < len(s); i++ {
				for j := i; j > 0 && s[j].(string) < s[j-1].(string); j-- {
					s[j], s[j-1] = s[j-1], s[j]
				}
			}
			return nil
		},
	}
	_ = sym.ModeInt
}
