package exec

import (
	"fmt"
	"go/ast"
	"go/types"
	"os"
	"path/filepath"
	"regexp"
	"sort"
	"strings"
	"sync"
	"sync/atomic"
	"time"

	"golang.org/x/tools/go/packages"
	"golang.org/x/tools/go/ssa"
	"golang.org/x/tools/go/ssa/ssautil"

	"vsym/sym"
)

type Options struct {
	RepoDir    string
	HarnessDir string
	Workers    int
	Solver     string // z3 | cvc5
	TimeoutMs  int
	MaxSteps   int64
	MaxDepth   int
	MaxFork    int
	MaxAlloc   int
	Tier       string
	Params     map[string]int
	SolverLog  string
	Verbose    bool
	EagerAssume bool
	CrossCheck string // directory for solver transcripts of worker 0 (cross-solver replay); empty = off
	BudgetSec  int // wall-clock budget per harness (0 = none); exhausted budget is reported as a bound hit
}

type Harness struct {
	Name        string
	Fn          *ssa.Function
	Props       []string
	Tier        string // "" (both) | "thorough" | "quick"
	MapOrderAny bool
	ModeBV      bool
	FPExact     bool
	Solver      string
	Expect      string // "" | "violation:<label>" (self-test twins)
	Doc         string
	Params      map[string]int // per-tier overrides from directives
	StubGroups  map[string]bool
	Init        map[string]bool
	SchedFirst  bool // one canonical goroutine schedule instead of all interleavings
}

type Engine struct {
	Opt              Options
	Prog             *ssa.Program
	Pkg              *ssa.Package // atree
	Harnesses        []*Harness
	redirect         map[*ssa.Function]*ssa.Function
	redirectGroup    map[*ssa.Function]string
	RedirectNames    map[string]string
	runtimeErrorType types.Type
	sched            *sched
	mu               sync.Mutex
	results          map[string]*HarnessResult
	stop             atomic.Bool
	LoadTime         time.Duration
	sampleStride     int
	sampleBudget     atomic.Int64
	SrcFiles         []string
}

var directiveRe = regexp.MustCompile(`(?m)^//[ \t]*vh:(\w+)[ \t]*(.*)$`)

const toolchainBin = "/root/go/pkg/mod/golang.org/toolchain@v0.0.1-go1.24.0.linux-amd64/bin"

// SetupProcessEnv makes this process (and children found via PATH) use the
// go1.24.0 toolchain offline.
func SetupProcessEnv() {
	if !strings.HasPrefix(os.Getenv("PATH"), toolchainBin) {
		os.Setenv("PATH", toolchainBin+":"+os.Getenv("PATH"))
	}
	os.Setenv("GOFLAGS", "-mod=mod")
	os.Setenv("GOTOOLCHAIN", "local")
	os.Setenv("GOPROXY", "off")
	os.Setenv("GOSUMDB", "off")
}

func goEnv() []string {
	SetupProcessEnv()
	return os.Environ()
}

func goEnvOld() []string {
	env := os.Environ()
	tc := toolchainBin
	out := []string{}
	for _, e := range env {
		if strings.HasPrefix(e, "PATH=") {
			e = "PATH=" + tc + ":" + strings.TrimPrefix(e, "PATH=")
		}
		if strings.HasPrefix(e, "GOFLAGS=") || strings.HasPrefix(e, "GOTOOLCHAIN=") || strings.HasPrefix(e, "GOPROXY=") || strings.HasPrefix(e, "GOSUMDB=") {
			continue
		}
		out = append(out, e)
	}
	out = append(out, "GOFLAGS=-mod=mod", "GOTOOLCHAIN=local", "GOPROXY=off", "GOSUMDB=off")
	return out
}

func firstLineOf(msgs []string) string {
	if len(msgs) == 0 {
		return ""
	}
	m := msgs[0]
	if i := strings.Index(m, "\n"); i >= 0 {
		m = m[:i]
	}
	return m
}

// GoEnv is exported for the driver (native replay uses the same toolchain).
func GoEnv() []string { return goEnv() }

// ExcludedHarnessFiles: harness files that do not type-check against the tree
// under check (e.g. they name an internal symbol the tree no longer has). They
// are left out -- for the engine and for the native build alike -- so that one
// broken harness does not blind every other check; what was left out is
// reported as INCONCLUSIVE.
var ExcludedHarnessFiles = map[string]bool{}

// OverlayFiles maps harness sources into the repo directory.
func OverlayFiles(repo, hdir string, includeTests bool) (map[string]string, error) {
	ents, err := os.ReadDir(hdir)
	if err != nil {
		return nil, err
	}
	m := map[string]string{}
	for _, e := range ents {
		n := e.Name()
		if !strings.HasSuffix(n, ".go") {
			continue
		}
		if strings.HasSuffix(n, "_test.go") && !includeTests {
			continue
		}
		if ExcludedHarnessFiles[n] {
			continue
		}
		m[filepath.Join(repo, "zz_vh_"+n)] = filepath.Join(hdir, n)
	}
	return m, nil
}

func Load(opt Options) (*Engine, error) {
	t0 := time.Now()
	var pkgs []*packages.Package
	for attempt := 0; ; attempt++ {
		ov, err := OverlayFiles(opt.RepoDir, opt.HarnessDir, false)
		if err != nil {
			return nil, err
		}
		overlay := map[string][]byte{}
		for virt, real := range ov {
			b, err := os.ReadFile(real)
			if err != nil {
				return nil, err
			}
			overlay[virt] = b
		}
		cfg := &packages.Config{
			Mode:       packages.LoadAllSyntax,
			Dir:        opt.RepoDir,
			BuildFlags: []string{"-tags=verif"},
			Overlay:    overlay,
			Env:        goEnv(),
		}
		pkgs, err = packages.Load(cfg, ".")
		if err != nil {
			return nil, err
		}
		nerr := 0
		var msgs []string
		bad := map[string]bool{}
		packages.Visit(pkgs, nil, func(p *packages.Package) {
			for _, e := range p.Errors {
				nerr++
				if len(msgs) < 20 {
					msgs = append(msgs, e.Error())
				}
				// errors located in a harness file other than the shared vh_*.go helpers
				pos := e.Pos
				if i := strings.Index(pos, ":"); i > 0 {
					base := filepath.Base(pos[:i])
					if strings.HasPrefix(base, "zz_vh_") {
						name := strings.TrimPrefix(base, "zz_vh_")
						if !strings.HasPrefix(name, "vh_") {
							bad[name] = true
						}
					}
				}
			}
		})
		if nerr == 0 {
			break
		}
		if len(bad) == 0 || attempt >= 8 {
			return nil, fmt.Errorf("HARNESS-BUILD-FAILED: %d errors loading package with harness overlay:\n%s", nerr, strings.Join(msgs, "\n"))
		}
		for n := range bad {
			ExcludedHarnessFiles[n] = true
			fmt.Printf("INCONCLUSIVE: harness file %s does not build against this tree and is left out (%s)\n", n, firstLineOf(msgs))
		}
	}
	prog, spkgs := ssautil.AllPackages(pkgs, ssa.InstantiateGenerics)
	prog.Build()
	e := &Engine{Opt: opt, Prog: prog, Pkg: spkgs[0], redirect: map[*ssa.Function]*ssa.Function{}, redirectGroup: map[*ssa.Function]string{}, RedirectNames: map[string]string{},
		results: map[string]*HarnessResult{}}
	for _, f := range pkgs[0].GoFiles {
		e.SrcFiles = append(e.SrcFiles, f)
	}
	rt := prog.ImportedPackage("runtime")
	if rt == nil {
		return nil, fmt.Errorf("runtime package not loaded")
	}
	e.runtimeErrorType = rt.Type("errorString").Object().Type()

	// index all functions by String() for stub targets
	byName := map[string]*ssa.Function{}
	for fn := range ssautil.AllFunctions(prog) {
		byName[fn.String()] = fn
	}
	// harnesses and stubs
	var names []string
	for name := range e.Pkg.Members {
		names = append(names, name)
	}
	sort.Strings(names)
	for _, name := range names {
		fn, ok := e.Pkg.Members[name].(*ssa.Function)
		if !ok {
			continue
		}
		doc := ""
		if fd, ok := fn.Syntax().(*ast.FuncDecl); ok && fd.Doc != nil {
			for _, c := range fd.Doc.List {
				doc += c.Text + "\n"
			}
		}
		dirs := directiveRe.FindAllStringSubmatch(doc, -1)
		if strings.HasPrefix(name, "VH_") {
			h := &Harness{Name: name, Fn: fn, Doc: doc, Params: map[string]int{}, StubGroups: map[string]bool{}, Init: map[string]bool{}}
			for _, d := range dirs {
				arg := strings.TrimSpace(d[2])
				switch d[1] {
				case "prop":
					h.Props = append(h.Props, strings.Fields(arg)...)
				case "propthorough":
					// properties this harness also serves in the thorough tier only
					if opt.Tier == "thorough" {
						h.Props = append(h.Props, strings.Fields(arg)...)
					}
				case "sched":
					h.SchedFirst = arg == "first"
				case "init":
					for _, g := range strings.Fields(arg) {
						h.Init[g] = true
					}
				case "stubs":
					for _, g := range strings.Fields(arg) {
						h.StubGroups[g] = true
					}
				case "tier":
					h.Tier = arg
				case "maporder":
					h.MapOrderAny = arg == "any"
				case "mode":
					h.ModeBV = arg == "bv"
				case "fpexact":
					h.FPExact = true
				case "solver":
					h.Solver = arg
				case "expect":
					h.Expect = arg
				case "param":
					// vh:param name quick thorough
					f := strings.Fields(arg)
					if len(f) == 3 {
						var q, t int
						fmt.Sscan(f[1], &q)
						fmt.Sscan(f[2], &t)
						if opt.Tier == "thorough" {
							h.Params[f[0]] = t
						} else {
							h.Params[f[0]] = q
						}
					}
				}
			}
			e.Harnesses = append(e.Harnesses, h)
		}
		for _, d := range dirs {
			if d[1] == "stub" {
				f := strings.Fields(d[2])
				if len(f) != 2 {
					return nil, fmt.Errorf("HARNESS-BUILD-FAILED: stub %s: directive must be '//vh:stub <target> <group>'", name)
				}
				target, group := f[0], f[1]
				tf, ok := byName[target]
				if !ok {
					return nil, fmt.Errorf("HARNESS-BUILD-FAILED: stub %s: target function %q not found", name, target)
				}
				e.redirect[tf] = fn
				e.redirectGroup[tf] = group
				e.RedirectNames[target] = name
			}
		}
	}
	e.LoadTime = time.Since(t0)
	return e, nil
}

func (e *Engine) stopRequested() bool { return e.stop.Load() }

func (e *Engine) takeSample() bool { return e.sampleBudget.Add(-1) >= 0 }

func (e *Engine) mergeResult(r *HarnessResult) {
	e.mu.Lock()
	defer e.mu.Unlock()
	t, ok := e.results[r.Name]
	if !ok {
		t = newResult(r.Name)
		e.results[r.Name] = t
	}
	t.merge(r)
	t.Wall += r.Wall
}

func (e *Engine) newWorker(id int, h *Harness) (*Worker, error) {
	tb := sym.NewTB()
	tb.FPExact = h.FPExact
	mode := sym.ModeInt
	if h.ModeBV {
		mode = sym.ModeBV
	}
	sname := e.Opt.Solver
	if h.Solver != "" {
		sname = h.Solver
	}
	s, err := sym.NewSolver(sname, mode, tb, e.Opt.TimeoutMs)
	if err != nil {
		return nil, err
	}
	if e.Opt.CrossCheck != "" && id == 0 {
		f, err := os.Create(filepath.Join(e.Opt.CrossCheck, h.Name+".smt2"))
		if err == nil {
			s.Log = f
			s.LogLimit = 1500
		}
	}
	if e.Opt.SolverLog != "" {
		f, err := os.Create(fmt.Sprintf("%s.%s.%d.smt2", e.Opt.SolverLog, h.Name, id))
		if err == nil {
			s.Log = f
		}
	}
	w := &Worker{eng: e, id: id, tb: tb, solver: s, consts: map[*ssa.Const]value{}, fninfo: map[*ssa.Function]*fnInfo{},
		intr: map[*ssa.Function]intrinsic{}}
	return w, nil
}

// RunHarness explores one harness with all workers; returns the merged result.
func (e *Engine) RunHarness(h *Harness) (*HarnessResult, error) {
	t0 := time.Now()
	n := e.Opt.Workers
	if n < 1 {
		n = 1
	}
	e.sampleStride = 37
	if e.Opt.Tier == "thorough" {
		e.sampleBudget.Store(120)
	} else {
		e.sampleBudget.Store(24)
	}
	e.stop.Store(false)
	var timer *time.Timer
	truncated := false
	if e.Opt.BudgetSec > 0 {
		timer = time.AfterFunc(time.Duration(e.Opt.BudgetSec)*time.Second, func() {
			truncated = true
			e.stop.Store(true)
		})
	}
	e.sched = &sched{workers: n}
	e.sched.cond = sync.NewCond(&e.sched.mu)
	e.sched.put(Job{H: h})
	var wg sync.WaitGroup
	errs := make(chan error, n)
	for i := 0; i < n; i++ {
		wg.Add(1)
		go func(id int) {
			defer wg.Done()
			var w *Worker
			for {
				job, ok := e.sched.get()
				if !ok {
					break
				}
				if e.stopRequested() {
					continue // drain the queue
				}
				if w == nil {
					var err error
					w, err = e.newWorker(id, h)
					if err != nil {
						errs <- err
						return
					}
				}
				w.runJob(job)
			}
			if w != nil {
				w.solver.Close()
			}
		}(i)
	}
	wg.Wait()
	select {
	case err := <-errs:
		return nil, err
	default:
	}
	e.mu.Lock()
	r := e.results[h.Name]
	e.mu.Unlock()
	if r == nil {
		r = newResult(h.Name)
	}
	r.Wall = time.Since(t0)
	if timer != nil {
		timer.Stop()
	}
	if truncated {
		r.BoundHits[fmt.Sprintf("time budget of %d s exhausted: exploration truncated after %d paths", e.Opt.BudgetSec, r.Paths)]++
	}
	return r, nil
}
