package exec

import (
	"fmt"
	"go/token"
	"os"
	"runtime/debug"
	"sort"
	"strings"
	"sync"
	"time"

	"golang.org/x/tools/go/ssa"

	"vsym/sym"
)

// ---- path termination signals (Go panics inside the interpreter) ----

type pathEnd struct {
	kind string // "infeasible", "assume", "abort", "unsupported", "bound", "violation"
	msg  string
}

type targetPanic struct {
	v   value
	pos token.Pos
}

// ---- decisions ----

type node struct {
	vals   []int // concretize nodes: value of each alternative (-1 = out of range)
	alts   []T // nil entry = unconditional alternative
	choice int
	next   int // next alternative index to try on backtrack
	kind   string
}

type VecEntry struct {
	Name string `json:"n"`
	Val  uint64 `json:"v"`
	term T
	node int // for choose entries: node index, else -1
}

// Job is a unit of work: a harness and a decision prefix.
type Job struct {
	H      *Harness
	Prefix []int
}

type Violation struct {
	Harness string     `json:"harness"`
	Label   string     `json:"label"`
	Kind    string     `json:"kind"` // "assert" | "panic" | "unreachable"
	Pos     string     `json:"pos"`
	Vector  []VecEntry `json:"vector"`
	Path    []int      `json:"path"`
	Note    string     `json:"note,omitempty"`
	Sched   bool       `json:"schedule_dependent,omitempty"`
}

type Worker struct {
	eng    *Engine
	id     int
	tb     *sym.TB
	solver *sym.Solver

	h         *Harness
	globals   map[*ssa.Global]*value
	nodes     []node
	cursor    int
	replayLen int
	assertRep bool // replaying a donated prefix: assert without checking
	pcSat     bool
	symCount  map[string]int
	vector    []VecEntry
	steps     int64
	depth     int
	consts    map[*ssa.Const]value
	fninfo    map[*ssa.Function]*fnInfo
	pools     map[*value]*poolState
	builders  map[*value]string // strings.Builder contents by builder address
	observes  []observation
	curPos    token.Pos
	callStack []*ssa.Function
	gor       *gorState
	intr      map[*ssa.Function]intrinsic
	jobPaths  int
	known     map[int]bool
	allocLimit int
	pendingVals []int
	forceNode bool
	reached   []string

	res *HarnessResult // accumulates locally; merged at job end
}

type observation struct {
	label string
	t     T
}

// HarnessResult aggregates what was explored for one harness.
type HarnessResult struct {
	Name         string
	Paths        int            // completed (harness returned, PC satisfiable or not checked)
	Infeasible   int            // paths cut by infeasible branch/assume
	Redundant    int            // schedules pruned as non-canonical linearisations (partial-order reduction)
	Decisions    int64          // symbolic branch decisions taken
	Asserts      int64          // assertion obligations discharged by solver (unsat)
	TrivAsserts  int64          // assertions that folded to true
	Inconclusive []string       // unknown/error obligations
	Unsupported  map[string]int // unsupported constructs hit
	BoundHits    map[string]int
	Reach        map[string]int // vhReach labels with sat PC
	Violations   []Violation
	ViolCount    map[string]int
	Steps        int64
	Funcs        map[string]int64 // executed instruction count by function
	Samples      []PathSample
	Lemmas       map[string]int
	Stubs        map[string]int
	Solver       sym.SolverStats
	Wall         time.Duration
	MaxDepth     int
}

type Obs struct {
	Label string `json:"label"`
	Val   uint64 `json:"val"`
}

type PathSample struct {
	Harness string     `json:"harness"`
	Path    []int      `json:"decisions"`
	Vector  []VecEntry `json:"vector"`
	Observe []Obs      `json:"observe"`
	Reached []string   `json:"reached,omitempty"`
}

func newResult(name string) *HarnessResult {
	return &HarnessResult{Name: name, Unsupported: map[string]int{}, BoundHits: map[string]int{},
		Reach: map[string]int{}, ViolCount: map[string]int{}, Funcs: map[string]int64{}, Lemmas: map[string]int{}, Stubs: map[string]int{}}
}

func (r *HarnessResult) merge(o *HarnessResult) {
	r.Paths += o.Paths
	r.Infeasible += o.Infeasible
	r.Redundant += o.Redundant
	r.Decisions += o.Decisions
	r.Asserts += o.Asserts
	r.TrivAsserts += o.TrivAsserts
	r.Inconclusive = append(r.Inconclusive, o.Inconclusive...)
	for k, v := range o.Unsupported {
		r.Unsupported[k] += v
	}
	for k, v := range o.BoundHits {
		r.BoundHits[k] += v
	}
	for k, v := range o.Reach {
		r.Reach[k] += v
	}
	for _, v := range o.Violations {
		if r.ViolCount[v.Label] < 3 {
			r.Violations = append(r.Violations, v)
		}
		r.ViolCount[v.Label]++
	}
	for k, v := range o.ViolCount {
		_ = k
		_ = v
	}
	r.Steps += o.Steps
	for k, v := range o.Funcs {
		r.Funcs[k] += v
	}
	for k, v := range o.Lemmas {
		r.Lemmas[k] += v
	}
	for k, v := range o.Stubs {
		r.Stubs[k] += v
	}
	r.Samples = append(r.Samples, o.Samples...)
	r.Solver.Sat += o.Solver.Sat
	r.Solver.Unsat += o.Solver.Unsat
	r.Solver.Unknown += o.Solver.Unknown
	r.Solver.Killed += o.Solver.Killed
	r.Solver.Errors += o.Solver.Errors
	r.Solver.Time += o.Solver.Time
	if o.Solver.MaxQuery > r.Solver.MaxQuery {
		r.Solver.MaxQuery = o.Solver.MaxQuery
	}
	if o.MaxDepth > r.MaxDepth {
		r.MaxDepth = o.MaxDepth
	}
}

// ---- scheduler ----

type sched struct {
	mu      sync.Mutex
	cond    *sync.Cond
	queue   []Job
	idle    int
	workers int
	done    bool
}

func (s *sched) hungry() bool {
	s.mu.Lock()
	defer s.mu.Unlock()
	return s.idle > 0 && len(s.queue) < s.idle
}

func (s *sched) put(j Job) {
	s.mu.Lock()
	s.queue = append(s.queue, j)
	s.mu.Unlock()
	s.cond.Signal()
}

func (s *sched) get() (Job, bool) {
	s.mu.Lock()
	defer s.mu.Unlock()
	for {
		if len(s.queue) > 0 {
			j := s.queue[len(s.queue)-1]
			s.queue = s.queue[:len(s.queue)-1]
			return j, true
		}
		s.idle++
		if s.idle == s.workers {
			s.done = true
			s.cond.Broadcast()
			return Job{}, false
		}
		s.cond.Wait()
		s.idle--
		if s.done {
			return Job{}, false
		}
	}
}

// ---- worker ----

func (w *Worker) unsupported(format string, args ...interface{}) {
	panic(pathEnd{kind: "unsupported", msg: fmt.Sprintf(format, args...)})
}

func (w *Worker) throwRuntime(msg string) {
	panic(targetPanic{v: iface{t: w.eng.runtimeErrorType, v: "runtime error: " + msg}, pos: w.curPos})
}

func (w *Worker) posStr(p token.Pos) string {
	if p == token.NoPos {
		return "?"
	}
	ps := w.eng.Prog.Fset.Position(p)
	f := ps.Filename
	if i := strings.LastIndex(f, "/"); i >= 0 {
		f = f[i+1:]
	}
	return fmt.Sprintf("%s:%d", f, ps.Line)
}

// freshName returns a deterministic per-path symbol name.
func (w *Worker) freshName(base string) string {
	k := w.symCount[base]
	w.symCount[base] = k + 1
	base = sanitize(base)
	if k == 0 {
		return "v_" + base
	}
	return fmt.Sprintf("v_%s_%d", base, k)
}

func sanitize(s string) string {
	var sb strings.Builder
	for _, c := range s {
		if (c >= 'a' && c <= 'z') || (c >= 'A' && c <= 'Z') || (c >= '0' && c <= '9') || c == '_' || c == '.' {
			sb.WriteRune(c)
		} else {
			sb.WriteByte('_')
		}
	}
	return sb.String()
}

func (w *Worker) newSym(base string, wd uint8, lo, hi uint64) T {
	name := w.freshName(base)
	t := w.tb.Var(name, wd, lo, hi)
	w.vector = append(w.vector, VecEntry{Name: name, term: t, node: -1})
	return t
}

func (w *Worker) newBoolSym(base string) T {
	name := w.freshName(base)
	t := w.tb.BoolVar(name)
	w.vector = append(w.vector, VecEntry{Name: name, term: t, node: -1})
	return t
}

func (w *Worker) live() bool { return w.cursor >= w.replayLen }

// assume adds a path constraint.
func (w *Worker) assume(c T) {
	if c.IsTrue() {
		return
	}
	if c.IsFalse() {
		panic(pathEnd{kind: "assume"})
	}
	if v, ok := w.lookupKnown(c); ok && v {
		return
	}
	if w.live() || w.assertRep {
		w.solver.Assert(c)
		w.pcSat = false
		if w.eng.Opt.EagerAssume && w.live() {
			if w.solver.Check() == sym.Unsat {
				panic(pathEnd{kind: "infeasible"})
			}
			w.pcSat = true
		}
	}
	w.learn(c, true)
}

// decide picks one of the alternatives; forks the path.
func (w *Worker) decide(alts []T, exhaustive bool, kind string) int {
	// fast path: exactly one non-false alternative that is constant true
	nf, last := 0, -1
	for i, a := range alts {
		if a == nil || !a.IsFalse() {
			nf++
			last = i
		}
	}
	if nf == 0 {
		panic(pathEnd{kind: "infeasible"})
	}
	if nf == 1 && !w.forceNode && (exhaustive || (alts[last] != nil && alts[last].IsTrue())) {
		// no fork; the single alternative holds on this path (by exhaustiveness)
		return last
	}
	if w.cursor < w.replayLen {
		nd := &w.nodes[w.cursor]
		if nd.alts == nil || len(nd.alts) != len(alts) || nd.alts[nd.choice] != alts[nd.choice] {
			if w.assertRep && nd.alts == nil {
				// donated prefix: fill in
				nd.alts = alts
				nd.kind = kind
				nd.vals = w.pendingVals
				if nd.choice >= len(alts) {
					panic(pathEnd{kind: "abort", msg: "engine: donated prefix out of range"})
				}
				w.solver.Push()
				if a := alts[nd.choice]; a != nil {
					w.solver.Assert(a)
				}
				if w.cursor == w.replayLen-1 {
					// last decision of the donated prefix: check feasibility
					if a := alts[nd.choice]; a != nil && a.IsFalse() {
						panic(pathEnd{kind: "infeasible"})
					}
					v := w.solver.Check()
					if v == sym.Unsat {
						panic(pathEnd{kind: "infeasible"})
					}
					w.pcSat = true
					w.assertRep = false
				}
				w.cursor++
				return nd.choice
			}
			panic(pathEnd{kind: "abort", msg: fmt.Sprintf("engine: nondeterministic replay at decision %d (%s vs %s)", w.cursor, nd.kind, kind)})
		}
		w.cursor++
		return nd.choice
	}
	// live
	w.res.Decisions++
	for i, a := range alts {
		if a != nil && a.IsFalse() {
			continue
		}
		isLast := true
		for j := i + 1; j < len(alts); j++ {
			if alts[j] == nil || !alts[j].IsFalse() {
				isLast = false
			}
		}
		w.solver.Push()
		feasible := true
		if a != nil {
			w.solver.Assert(a)
			if !(isLast && exhaustive && w.pcSat) {
				v := w.solver.Check()
				if v == sym.Unsat {
					feasible = false
				} else if v == sym.Sat {
					w.pcSat = true
				} else {
					w.res.Inconclusive = append(w.res.Inconclusive, fmt.Sprintf("branch feasibility %s at %s (kept)", v, w.posStr(w.curPos)))
				}
			}
		} else if !w.pcSat {
			v := w.solver.Check()
			if v == sym.Unsat {
				feasible = false
			} else {
				w.pcSat = true
			}
		}
		if !feasible {
			w.solver.PopTo(w.solver.Level() - 1)
			if a == nil {
				// PC itself unsat
				panic(pathEnd{kind: "infeasible"})
			}
			continue
		}
		nd := node{alts: alts, choice: i, next: i + 1, kind: kind, vals: w.pendingVals}
		// donate remaining alternatives if others are idle
		if nd.next < len(alts) && w.eng.sched.hungry() {
			pre := make([]int, len(w.nodes), len(w.nodes)+1)
			for k := range w.nodes {
				pre[k] = w.nodes[k].choice
			}
			for j := nd.next; j < len(alts); j++ {
				if alts[j] != nil && alts[j].IsFalse() {
					continue
				}
				p := append(append([]int{}, pre...), j)
				w.eng.sched.put(Job{H: w.h, Prefix: p})
			}
			nd.next = len(alts)
		}
		w.nodes = append(w.nodes, nd)
		w.cursor++
		w.replayLen = w.cursor
		if len(w.nodes) > w.res.MaxDepth {
			w.res.MaxDepth = len(w.nodes)
		}
		return i
	}
	panic(pathEnd{kind: "infeasible"})
}

// learn records the truth value of a decided condition (and cheap
// consequences) so that later branches on the same term need no query.
func (w *Worker) learn(c T, val bool) {
	if c.IsConst() {
		return
	}
	if c.K == sym.KBNot {
		w.learn(c.A, !val)
		return
	}
	w.known[c.ID] = val
	tb := w.tb
	switch c.K {
	case sym.KUlt:
		if val { // a<b  =>  !(b<a), a!=b
			w.setKnown(tb.Ult(c.B, c.A), false)
			w.setKnown(tb.Eq(c.A, c.B), false)
		}
	case sym.KSlt:
		if val {
			w.setKnown(tb.Slt(c.B, c.A), false)
			w.setKnown(tb.Eq(c.A, c.B), false)
		}
	case sym.KEq:
		if val && c.A.S == sym.SInt {
			w.setKnown(tb.Ult(c.A, c.B), false)
			w.setKnown(tb.Ult(c.B, c.A), false)
		}
	case sym.KBAnd:
		if val {
			w.learn(c.A, true)
			w.learn(c.B, true)
		}
	case sym.KBOr:
		if !val {
			w.learn(c.A, false)
			w.learn(c.B, false)
		}
	}
}

func (w *Worker) setKnown(c T, val bool) {
	if c.IsConst() {
		return
	}
	if c.K == sym.KBNot {
		w.known[c.A.ID] = !val
		return
	}
	w.known[c.ID] = val
}

func (w *Worker) lookupKnown(c T) (bool, bool) {
	if c.K == sym.KBNot {
		v, ok := w.known[c.A.ID]
		return !v, ok
	}
	v, ok := w.known[c.ID]
	return v, ok
}

// branch forks on a boolean term.
func (w *Worker) branch(c T) bool {
	if c.IsTrue() {
		return true
	}
	if c.IsFalse() {
		return false
	}
	if v, ok := w.lookupKnown(c); ok {
		return v
	}
	r := w.decide([]T{c, w.tb.BNot(c)}, true, "if") == 0
	w.learn(c, r)
	return r
}

// concretize forks over the feasible values 0..n-1 of t (plus an
// out-of-range alternative, returned as -1). The feasible values are found by
// model enumeration, so a term that the path condition pins to one value
// costs two queries, not n.
func (w *Worker) concretize(t T, n int, kind string) int {
	if t.IsConst() {
		if t.V < uint64(n) {
			return int(t.V)
		}
		return -1
	}
	if w.cursor < w.replayLen && !w.assertRep {
		nd := &w.nodes[w.cursor]
		if nd.vals == nil {
			panic(pathEnd{kind: "abort", msg: "engine: nondeterministic replay (concretize)"})
		}
		w.cursor++
		return nd.vals[nd.choice]
	}
	// enumerate feasible values (ascending order for determinism across workers)
	var vals []int
	oor := false
	w.solver.Push()
	for len(vals) <= n {
		v := w.solver.Check()
		if v != sym.Sat {
			break
		}
		x, err := w.solver.TermValue(t)
		if err != nil {
			break
		}
		if x >= uint64(n) {
			oor = true
			w.solver.Assert(w.tb.Ult(t, w.tb.Const(t.W, uint64(n))))
			continue
		}
		vals = append(vals, int(x))
		w.solver.Assert(w.tb.Ne(t, w.tb.Const(t.W, x)))
	}
	w.solver.PopTo(w.solver.Level() - 1)
	sort.Ints(vals)
	if oor {
		vals = append(vals, -1)
	}
	if len(vals) == 0 {
		panic(pathEnd{kind: "infeasible"})
	}
	alts := make([]T, len(vals))
	for i, v := range vals {
		if v < 0 {
			alts[i] = w.tb.Uge(t, w.tb.Const(t.W, uint64(n)))
		} else {
			alts[i] = w.tb.Eq(t, w.tb.Const(t.W, uint64(v)))
		}
	}
	// always record a node (even for a single feasible value) so that replay,
	// which cannot enumerate, consumes the same number of decisions
	w.pendingVals = vals
	w.forceNode = true
	r := w.decide(alts, true, kind)
	w.forceNode = false
	w.pendingVals = nil
	w.learn(alts[r], true)
	return vals[r]
}

// backtrack finds the next unexplored alternative; returns false when the
// subtree of this job is exhausted.
func (w *Worker) backtrack(minDepth int) bool {
	for d := len(w.nodes) - 1; d >= minDepth; d-- {
		nd := &w.nodes[d]
		for nd.next < len(nd.alts) {
			j := nd.next
			nd.next++
			a := nd.alts[j]
			if a != nil && a.IsFalse() {
				continue
			}
			w.solver.PopTo(d)
			w.solver.Push()
			if a != nil {
				w.solver.Assert(a)
				v := w.solver.Check()
				if v == sym.Unsat {
					continue
				}
				if v != sym.Sat {
					w.res.Inconclusive = append(w.res.Inconclusive, fmt.Sprintf("branch feasibility %s on backtrack (kept)", v))
				}
			}
			nd.choice = j
			w.nodes = w.nodes[:d+1]
			w.replayLen = d + 1
			w.res.Decisions++
			return true
		}
	}
	return false
}

func (w *Worker) resetPath() {
	w.cursor = 0
	w.symCount = map[string]int{}
	w.vector = w.vector[:0]
	w.steps = 0
	w.depth = 0
	w.globals = map[*ssa.Global]*value{}
	w.pools = map[*value]*poolState{}
	w.builders = map[*value]string{}
	w.observes = w.observes[:0]
	w.callStack = w.callStack[:0]
	w.pcSat = true
	w.gor = nil
	w.reached = w.reached[:0]
	w.known = map[int]bool{}
	w.allocLimit = 0
}

func (w *Worker) pathChoices() []int {
	p := make([]int, len(w.nodes))
	for i := range w.nodes {
		p[i] = w.nodes[i].choice
	}
	return p
}

// modelVector fills vector values from the solver model (call right after Sat).
func (w *Worker) modelVector() []VecEntry {
	var vars []T
	for _, e := range w.vector {
		if e.term != nil {
			vars = append(vars, e.term)
		}
	}
	m, err := w.solver.Values(vars)
	if err != nil {
		fmt.Fprintln(os.Stderr, "model error:", err)
		m = sym.Model{}
	}
	out := make([]VecEntry, len(w.vector))
	for i, e := range w.vector {
		out[i] = VecEntry{Name: e.Name, node: e.node}
		if e.term != nil {
			if v, ok := m[e.Name]; ok && (e.term.S != sym.SInt || (v >= e.term.Lo && v <= e.term.Hi)) {
				out[i].Val = v
			} else {
				// not constrained on this path: any in-range value is consistent
				out[i].Val = e.term.Lo
			}
		} else if e.node >= 0 && e.node < len(w.nodes) {
			out[i].Val = uint64(w.nodes[e.node].choice)
		} else {
			out[i].Val = e.Val
		}
	}
	return out
}

// modelVectorChecked returns a model of the current path condition, or nil if
// the path condition is unsatisfiable.
func (w *Worker) modelVectorChecked() []VecEntry {
	if w.solver.Check() == sym.Unsat {
		return nil
	}
	return w.modelVector()
}

func (w *Worker) recordViolation(kind, label string, pos token.Pos, vec []VecEntry, note string) {
	w.res.ViolCount[label]++
	if w.res.ViolCount[label] <= 3 {
		sched := false
		for _, nd := range w.nodes {
			if strings.HasPrefix(nd.kind, "sched:") || nd.kind == "select" {
				sched = true
			}
		}
		w.res.Violations = append(w.res.Violations, Violation{
			Harness: w.h.Name, Label: label, Kind: kind, Pos: w.posStr(pos), Vector: vec, Path: w.pathChoices(), Note: note, Sched: sched})
	}
}

// assertHolds discharges an obligation.
func (w *Worker) assertHolds(c T, label string, pos token.Pos) {
	w.assertKind(c, label, pos, "assert")
}

// assertKind: kind "assert" is a property assertion; kind "model" is a
// requirement on which the harness's own model of the code rests (vhRequire):
// its failure is reported as broken machinery, never as a violation.
func (w *Worker) assertKind(c T, label string, pos token.Pos, kind string) {
	if c.IsTrue() {
		if w.live() {
			w.res.TrivAsserts++
		}
		return
	}
	if !w.live() {
		// checked in a previous execution of this prefix
		w.assume(c)
		return
	}
	neg := w.tb.BNot(c)
	w.solver.Push()
	w.solver.Assert(neg)
	v := w.solver.Check()
	switch v {
	case sym.Unsat:
		w.res.Asserts++
	case sym.Sat:
		vec := w.modelVector()
		w.solver.PopTo(w.solver.Level() - 1)
		w.recordViolation(kind, label, pos, vec, "")
		if c.IsFalse() {
			panic(pathEnd{kind: "violation"})
		}
		w.solver.Assert(c)
		w.pcSat = false
		return
	default:
		w.res.Inconclusive = append(w.res.Inconclusive, fmt.Sprintf("assert %q at %s: %s", label, w.posStr(pos), v))
	}
	w.solver.PopTo(w.solver.Level() - 1)
	if c.IsFalse() {
		panic(pathEnd{kind: "infeasible"})
	}
	w.solver.Assert(c)
}

// checkPC makes sure the current path condition is satisfiable.
func (w *Worker) checkPC() bool {
	if w.pcSat {
		return true
	}
	if !w.live() {
		return true
	}
	v := w.solver.Check()
	if v == sym.Unsat {
		return false
	}
	w.pcSat = true
	return true
}

// runJob explores the subtree below job.Prefix.
func (w *Worker) runJob(job Job) {
	t0 := time.Now()
	w.h = job.H
	w.res = newResult(job.H.Name)
	w.solver.Reset()
	w.nodes = w.nodes[:0]
	for _, c := range job.Prefix {
		w.nodes = append(w.nodes, node{choice: c, next: 1 << 30})
	}
	w.replayLen = len(job.Prefix)
	w.jobPaths = 0
	w.assertRep = len(job.Prefix) > 0
	minDepth := len(job.Prefix)
	s0 := w.solver.Stats
	for {
		w.runPath()
		w.assertRep = false
		if w.eng.stopRequested() {
			break
		}
		if !w.backtrack(minDepth) {
			break
		}
	}
	s1 := w.solver.Stats
	w.res.Solver = sym.SolverStats{Sat: s1.Sat - s0.Sat, Unsat: s1.Unsat - s0.Unsat, Unknown: s1.Unknown - s0.Unknown, Killed: s1.Killed - s0.Killed,
		Errors: s1.Errors - s0.Errors, Time: s1.Time - s0.Time, MaxQuery: s1.MaxQuery}
	for k, v := range w.tb.LemmaUse {
		w.res.Lemmas[k] += v
	}
	w.tb.LemmaUse = map[string]int{}
	w.res.Wall = time.Since(t0)
	w.eng.mergeResult(w.res)
}

func (w *Worker) runPath() {
	w.resetPath()
	defer func() {
		w.res.Steps += w.steps
		r := recover()
		if w.gor != nil {
			w.gor.sched.killAll()
		}
		if r == nil {
			return
		}
		switch r := r.(type) {
		case pathEnd:
			switch r.kind {
			case "infeasible", "assume":
				w.res.Infeasible++
			case "unsupported":
				w.res.Unsupported[r.msg+" @"+w.posStr(w.curPos)+" in "+w.curFn()]++
			case "bound":
				w.res.BoundHits[r.msg]++
			case "abort":
				w.res.Unsupported["ABORT: "+r.msg]++
			case "violation", "redundant":
			}
		case targetPanic:
			// uncaught Go panic in target code: violation if the path is feasible
			if !w.live() {
				return
			}
			msg := toString(r.v)
			if i, ok := r.v.(iface); ok {
				if s, ok := i.v.(string); ok {
					msg = s
				} else if i.t != nil {
					msg = i.t.String()
				}
			}
			v := w.solver.Check()
			if v == sym.Unsat {
				w.res.Infeasible++
				return
			}
			vec := w.modelVector()
			w.recordViolation("panic", "panic: "+msg, r.pos, vec, "")
		default:
			w.res.Unsupported[fmt.Sprintf("ENGINE-PANIC: %v @%s in %s\n%s", r, w.posStr(w.curPos), w.curFn(), trimStack(debug.Stack()))]++
		}
	}()
	w.initGlobals()
	w.callFn(w.h.Fn, nil, token.NoPos)
	if w.gor != nil {
		w.gor.sched.killAll()
	}
	// completed
	if w.live() || len(w.nodes) == 0 {
		w.res.Paths++
		w.jobPaths++
		if (w.jobPaths <= 2 || w.jobPaths%w.eng.sampleStride == 0) && w.eng.takeSample() {
			if w.solver.Check() == sym.Sat {
				vec := w.modelVector()
				m := sym.Model{}
				for _, e := range vec {
					m[e.Name] = e.Val
				}
				ps := PathSample{Harness: w.h.Name, Path: w.pathChoices(), Vector: vec, Reached: append([]string{}, w.reached...)}
				for _, o := range w.observes {
					ps.Observe = append(ps.Observe, Obs{Label: o.label, Val: w.tb.Eval(o.t, m)})
				}
				w.res.Samples = append(w.res.Samples, ps)
			}
		}
	}
}

func trimStack(b []byte) string {
	lines := strings.Split(string(b), "\n")
	var out []string
	for _, l := range lines {
		if strings.Contains(l, "vsym/") && !strings.HasPrefix(l, "\t") {
			if i := strings.LastIndex(l, "("); i > 0 {
				l = l[:i]
			}
			out = append(out, strings.TrimSpace(l))
		}
		if len(out) > 14 {
			break
		}
	}
	return strings.Join(out, "\n")
}

func (w *Worker) curFn() string {
	n := len(w.callStack)
	if n == 0 {
		return "?"
	}
	s := w.callStack[n-1].String()
	for i := n - 2; i >= 0 && i >= n-5; i-- {
		s += " <- " + w.callStack[i].Name()
	}
	return s
}

func sortedKeys(m map[string]int) []string {
	var ks []string
	for k := range m {
		ks = append(ks, k)
	}
	sort.Strings(ks)
	return ks
}
