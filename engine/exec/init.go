package exec

import "go/token"

// initGlobals runs the package initialiser of atree (dependencies' init
// functions are skipped; their globals start zeroed).
func (w *Worker) initGlobals() {
	init := w.eng.Pkg.Func("init")
	if init != nil {
		w.callFn(init, nil, token.NoPos)
	}
}
