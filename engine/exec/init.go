package exec

import (
	"go/token"

	"golang.org/x/tools/go/ssa"
)

// initGlobals runs the package initialiser of atree (dependencies' init
// functions are skipped; their globals start zeroed).
func (w *Worker) initGlobals() {
	init := w.eng.Pkg.Func("init")
	if init != nil {
		w.callFn(init, nil, token.NoPos)
	}
}

// bestEffortInit runs a dependency's package initialiser; an instruction that
// panics or is unsupported is skipped (its result, if any, becomes the zero
// value of its type).
func (w *Worker) bestEffortInit(fn *ssa.Function) {
	if fn.Blocks == nil {
		return
	}
	fi := w.info(fn)
	fr := &frame{w: w, fn: fn, fi: fi}
	fr.env = make([]value, fi.n)
	for _, l := range fn.Locals {
		cell := w.zero(deref(l.Type()))
		fr.env[fi.idx[l]] = &cell
	}
	fr.block = fn.Blocks[0]
	savedStack, savedDepth := len(w.callStack), w.depth
	steps := 0
	for fr.block != nil && steps < 100000 {
		instrs := fr.block.Instrs
		jumped := false
		for _, instr := range instrs {
			steps++
			if phi, ok := instr.(*ssa.Phi); ok {
				// init functions have trivial control flow (guard check only)
				for i, p := range fr.block.Preds {
					if p == fr.prevBlock {
						fr.set(phi, fr.get(phi.Edges[i]))
					}
				}
				continue
			}
			var k continuation
			ok := func() (ok bool) {
				defer func() {
					if r := recover(); r != nil {
						switch r := r.(type) {
						case pathEnd:
							if r.kind != "unsupported" && r.kind != "bound" {
								panic(r)
							}
						case targetPanic:
						default:
							_ = r
						}
						w.callStack = w.callStack[:savedStack]
						w.depth = savedDepth
						ok = false
					}
				}()
				k = w.visitInstr(fr, instr)
				return true
			}()
			if !ok {
				if v, isVal := instr.(ssa.Value); isVal {
					func() {
						defer func() { recover() }()
						fr.set(v, w.zero(v.Type()))
					}()
				}
				continue
			}
			if k == kReturn {
				return
			}
			if k == kJump {
				jumped = true
				break
			}
		}
		if !jumped {
			return
		}
	}
}
