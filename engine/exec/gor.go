package exec

import (
	"go/types"

	"golang.org/x/tools/go/ssa"
)

type vclock []int

// gsched: placeholder until modelled goroutines are implemented.
type gsched struct{}

func newGsched(w *Worker) *gsched { return &gsched{} }

func (g *gsched) access(w *Worker, p *value, write bool)      {}
func (g *gsched) accessMap(w *Worker, m *symMap, write bool)  {}
func (g *gsched) send(w *Worker, c *channel, v value)         { w.unsupported("channel send") }
func (g *gsched) recv(w *Worker, c *channel, ok bool, t types.Type) value {
	w.unsupported("channel receive")
	return nil
}
func (g *gsched) closeChan(w *Worker, c *channel) { w.unsupported("close") }
func (g *gsched) spawn(w *Worker, fr *frame, instr *ssa.Go, fn value, args []value) {
	w.unsupported("go statement")
}
func (g *gsched) selectStmt(w *Worker, fr *frame, instr *ssa.Select) value {
	w.unsupported("select")
	return nil
}

func (g *gsched) wgAdd(w *Worker, p *value, d int) {}
func (g *gsched) wgWait(w *Worker, p *value)        {}
