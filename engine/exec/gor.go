package exec

import (
	"fmt"
	"go/token"
	"go/types"
	"sync"

	"golang.org/x/tools/go/ssa"
)

// Modelled goroutines. Each target goroutine runs on its own Go goroutine but
// only one executes at a time (baton passing). At every synchronisation
// operation the scheduler forks over which runnable goroutine proceeds
// (schedule = symbolic choice, explored exhaustively by the path DFS). Between
// synchronisation operations a goroutine runs alone; that is sufficient
// because every heap access is fed to a vector-clock happens-before detector:
// a race is reported as a violation, and without races only sync-level
// interleavings are observable.

type vclock []int

func (v vclock) get(i int) int {
	if i < len(v) {
		return v[i]
	}
	return 0
}

func (v vclock) copy() vclock { return append(vclock(nil), v...) }

func join(a, b vclock) vclock {
	if len(b) > len(a) {
		a = append(a, make(vclock, len(b)-len(a))...)
	}
	for i, x := range b {
		if x > a[i] {
			a[i] = x
		}
	}
	return a
}

const (
	gRunnable = iota
	gBlocked
	gDone
)

type gor struct {
	id     int
	resume chan struct{}
	state  int
	ready  func() bool
	vc     vclock
	// saved interpreter context
	callStack []*ssa.Function
	depth     int
	curPos    token.Pos
	name      string
}

type gorKill struct{}

type chanMsg struct {
	v  value
	vc vclock
}

type wgState struct {
	n   int
	clk vclock
}

type locState struct {
	wg, wclk int // last write: goroutine id, clock (-1: none)
	wpos     token.Pos
	reads    map[int]int
	rpos     map[int]token.Pos
}

type blockInfo struct {
	gid     int
	fp      map[interface{}]bool
	enabled map[int]bool // goroutines enabled when this block's goroutine was chosen
}

type gsched struct {
	prevBlock *blockInfo
	curBlock  *blockInfo
	w       *Worker
	gs      []*gor
	cur     *gor
	dead    bool
	abort   interface{}
	wgs     map[*value]*wgState
	locs    map[*value]*locState
	mapLocs map[*symMap]*locState
	exits   sync.WaitGroup
	nchan   int
	msgs    map[*channel][]chanMsg // parallel to channel.buf: sender clocks
	active  bool                   // more than one goroutine has existed
}

func newGsched(w *Worker) *gsched {
	s := &gsched{w: w, wgs: map[*value]*wgState{}, locs: map[*value]*locState{}, mapLocs: map[*symMap]*locState{}, msgs: map[*channel][]chanMsg{}}
	main := &gor{id: 0, resume: make(chan struct{}, 1), vc: vclock{1}, name: "main"}
	s.gs = []*gor{main}
	s.cur = main
	s.curBlock = &blockInfo{gid: 0, fp: map[interface{}]bool{}, enabled: map[int]bool{0: true}}
	return s
}

// fatal ends the path from whichever goroutine is running.
func (s *gsched) fatal(p interface{}) {
	if s.cur.id == 0 {
		panic(p)
	}
	s.abort = p
	s.dead = true
	s.gs[0].resume <- struct{}{}
	panic(gorKill{})
}

func (s *gsched) runnable() []*gor {
	var r []*gor
	for _, g := range s.gs {
		switch g.state {
		case gRunnable:
			r = append(r, g)
		case gBlocked:
			if g.ready() {
				r = append(r, g)
			}
		}
	}
	return r
}

func (s *gsched) touch(obj interface{}) {
	if s.curBlock != nil {
		s.curBlock.fp[obj] = true
	}
}

// finishBlock closes the block that just ran and prunes schedules that are a
// non-canonical linearisation of the same partial order: if the previous
// block (other goroutine, higher id) is independent of this one and this
// goroutine was already enabled when the previous one was chosen, the
// swapped order is explored elsewhere.
func (s *gsched) finishBlock() {
	b := s.curBlock
	p := s.prevBlock
	if s.w.h.SchedFirst {
		s.prevBlock = b
		return
	}
	if p != nil && p.gid != b.gid && b.gid < p.gid && p.enabled[b.gid] {
		disjoint := true
		for o := range b.fp {
			if p.fp[o] {
				disjoint = false
				break
			}
		}
		if disjoint {
			s.w.res.Redundant++
			s.fatal(pathEnd{kind: "redundant"})
		}
	}
	s.prevBlock = b
}

// choose picks the goroutine that runs the next block.
func (s *gsched) choose(cands []*gor, kind string) *gor {
	k := 0
	if len(cands) > 1 && !s.w.h.SchedFirst {
		k = s.w.decide(make([]T, len(cands)), false, "sched:"+kind)
	}
	en := map[int]bool{}
	for _, c := range cands {
		en[c.id] = true
	}
	s.curBlock = &blockInfo{gid: cands[k].id, fp: map[interface{}]bool{}, enabled: en}
	return cands[k]
}

// switchTo hands the baton to next and waits until it comes back.
func (s *gsched) switchTo(next *gor) {
	w := s.w
	prev := s.cur
	if next == prev {
		return
	}
	prev.callStack = append(prev.callStack[:0], w.callStack...)
	prev.depth, prev.curPos = w.depth, w.curPos
	s.cur = next
	w.callStack = append(w.callStack[:0], next.callStack...)
	w.depth, w.curPos = next.depth, next.curPos
	next.resume <- struct{}{}
	<-prev.resume
	if s.dead {
		if prev.id == 0 {
			if s.abort != nil {
				p := s.abort
				s.abort = nil
				panic(p)
			}
			return
		}
		panic(gorKill{})
	}
	s.cur = prev
	w.callStack = append(w.callStack[:0], prev.callStack...)
	w.depth, w.curPos = prev.depth, prev.curPos
}

// yield is a scheduling point: any runnable goroutine may proceed.
func (s *gsched) yield(kind string) {
	if !s.active {
		return
	}
	s.finishBlock()
	cands := s.runnable()
	if len(cands) == 0 {
		s.deadlock()
	}
	next := s.choose(cands, kind)
	if next.state == gBlocked {
		next.state = gRunnable
	}
	s.switchTo(next)
}

// block parks the current goroutine until ready() holds.
func (s *gsched) block(ready func() bool, kind string) {
	g := s.cur
	g.state = gBlocked
	g.ready = ready
	s.finishBlock()
	cands := s.runnable()
	if len(cands) == 0 {
		s.deadlock()
	}
	next := s.choose(cands, "block:"+kind)
	next.state = gRunnable
	if next == g {
		return
	}
	s.switchTo(next)
	g.state = gRunnable
}

func (s *gsched) deadlock() {
	w := s.w
	if w.live() {
		vec := w.modelVectorChecked()
		if vec != nil {
			w.recordViolation("deadlock", "deadlock: all goroutines are blocked", w.curPos, vec, "")
		}
	}
	s.fatal(pathEnd{kind: "violation"})
}

func (s *gsched) spawn(w *Worker, fr *frame, instr *ssa.Go, fn value, args []value) {
	s.active = true
	parent := s.cur
	g := &gor{id: len(s.gs), resume: make(chan struct{}, 1), name: fmt.Sprintf("g%d", len(s.gs))}
	g.vc = parent.vc.copy()
	for len(g.vc) <= g.id {
		g.vc = append(g.vc, 0)
	}
	g.vc[g.id] = 1
	parent.vc[parent.id]++
	s.gs = append(s.gs, g)
	s.touch(g)
	s.exits.Add(1)
	go func() {
		defer s.exits.Done()
		<-g.resume
		if s.dead {
			return
		}
		defer func() {
			r := recover()
			if r == nil {
				return
			}
			if _, ok := r.(gorKill); ok {
				return
			}
			// path end or uncaught target panic inside a goroutine: hand to main
			if tp, ok := r.(targetPanic); ok && !s.dead {
				// an uncaught panic in a goroutine crashes the program
				if w.live() {
					if vec := w.modelVectorChecked(); vec != nil {
						w.recordViolation("panic", "panic in goroutine: "+toString(tp.v), tp.pos, vec, "")
					}
				}
				r = pathEnd{kind: "violation"}
			}
			if !s.dead {
				s.abort = r
				s.dead = true
				s.gs[0].resume <- struct{}{}
			}
		}()
		s.touch(g)
		w.call(nil, instr.Pos(), fn, args)
		// goroutine finished
		g.state = gDone
		s.finishBlock()
		cands := s.runnable()
		if len(cands) == 0 {
			// everything else is blocked (main included): deadlock
			s.deadlockFromExit()
			return
		}
		next := s.choose(cands, "exit")
		if next.state == gBlocked {
			next.state = gRunnable
		}
		s.cur = next
		w.callStack = append(w.callStack[:0], next.callStack...)
		w.depth, w.curPos = next.depth, next.curPos
		next.resume <- struct{}{}
	}()
}

func (s *gsched) deadlockFromExit() {
	w := s.w
	if w.live() {
		vec := w.modelVectorChecked()
		if vec != nil {
			w.recordViolation("deadlock", "deadlock: all goroutines are blocked", w.curPos, vec, "")
		}
	}
	s.abort = pathEnd{kind: "violation"}
	s.dead = true
	s.gs[0].resume <- struct{}{}
}

// killAll terminates parked goroutines at the end of a path.
func (s *gsched) killAll() {
	s.dead = true
	for _, g := range s.gs[1:] {
		if g.state != gDone {
			select {
			case g.resume <- struct{}{}:
			default:
			}
		}
	}
	s.exits.Wait()
}

// ---- channels ----

func (s *gsched) send(w *Worker, c *channel, v value) {
	if c == nil {
		s.block(func() bool { return false }, "send-nil")
	}
	s.yield("send")
	s.touch(c)
	for {
		if c.closed {
			w.throwRuntime("send on closed channel")
		}
		if len(c.buf) < c.cap || (c.cap == 0 && c.recvWaiting > 0 && len(c.buf) == 0) {
			g := s.cur
			c.buf = append(c.buf, copyVal(v))
			s.msgs[c] = append(s.msgs[c], chanMsg{vc: g.vc.copy()})
			g.vc[g.id]++
			if c.cap == 0 {
				// rendezvous: wait until the receiver has taken it
				s.block(func() bool { return len(c.buf) == 0 }, "send-sync")
			}
			return
		}
		s.block(func() bool {
			return c.closed || len(c.buf) < c.cap || (c.cap == 0 && c.recvWaiting > 0 && len(c.buf) == 0)
		}, "send")
	}
}

func (s *gsched) recv(w *Worker, c *channel, commaOk bool, t types.Type) value {
	if c == nil {
		s.block(func() bool { return false }, "recv-nil")
	}
	s.yield("recv")
	s.touch(c)
	elemT := t
	if commaOk {
		elemT = t.(*types.Tuple).At(0).Type()
	}
	for {
		if len(c.buf) > 0 {
			v := s.take(c)
			if commaOk {
				return tuple{v, w.tb.True}
			}
			return v
		}
		if c.closed {
			g := s.cur
			g.vc = join(g.vc, c.closeClk)
			z := w.zero(elemT)
			if commaOk {
				return tuple{z, w.tb.False}
			}
			return z
		}
		c.recvWaiting++
		s.block(func() bool { return len(c.buf) > 0 || c.closed }, "recv")
		c.recvWaiting--
	}
}

func (s *gsched) take(c *channel) value {
	v := c.buf[0]
	c.buf = c.buf[1:]
	ms := s.msgs[c]
	g := s.cur
	g.vc = join(g.vc, ms[0].vc)
	s.msgs[c] = ms[1:]
	return v
}

func (s *gsched) closeChan(w *Worker, c *channel) {
	if c == nil {
		w.throwRuntime("close of nil channel")
	}
	// no scheduling point: close is ordered with the closing goroutine's
	// neighbouring send/receive points (sync-block granularity, see DESIGN)
	s.touch(c)
	if c.closed {
		w.throwRuntime("close of closed channel")
	}
	g := s.cur
	c.closed = true
	c.closeClk = g.vc.copy()
	g.vc[g.id]++
}

func (s *gsched) selectStmt(w *Worker, fr *frame, instr *ssa.Select) value {
	if instr.Blocking {
		s.yield("select")
	}
	type st struct {
		c    *channel
		send value
		dir  types.ChanDir
	}
	var states []st
	for _, state := range instr.States {
		c, _ := fr.get(state.Chan).(*channel)
		var sv value
		if state.Send != nil {
			sv = fr.get(state.Send)
		}
		states = append(states, st{c: c, send: sv, dir: state.Dir})
		if c != nil {
			s.touch(c)
		}
	}
	readyIdx := func() []int {
		var r []int
		for i, x := range states {
			if x.c == nil {
				continue
			}
			if x.dir == types.RecvOnly {
				if len(x.c.buf) > 0 || x.c.closed {
					r = append(r, i)
				}
			} else {
				if x.c.closed || len(x.c.buf) < x.c.cap {
					r = append(r, i)
				}
			}
		}
		return r
	}
	for {
		r := readyIdx()
		if len(r) == 0 {
			if !instr.Blocking {
				return s.selectResult(w, instr, -1, nil, false)
			}
			s.block(func() bool { return len(readyIdx()) > 0 }, "select")
			continue
		}
		k := 0
		if len(r) > 1 && !w.h.SchedFirst {
			k = w.decide(make([]T, len(r)), false, "select")
		}
		i := r[k]
		x := states[i]
		if x.dir == types.RecvOnly {
			if len(x.c.buf) > 0 {
				v := s.take(x.c)
				return s.selectResult(w, instr, i, v, true)
			}
			g := s.cur
			g.vc = join(g.vc, x.c.closeClk)
			return s.selectResult(w, instr, i, nil, false)
		}
		if x.c.closed {
			w.throwRuntime("send on closed channel")
		}
		g := s.cur
		x.c.buf = append(x.c.buf, copyVal(x.send))
		s.msgs[x.c] = append(s.msgs[x.c], chanMsg{vc: g.vc.copy()})
		g.vc[g.id]++
		return s.selectResult(w, instr, i, nil, false)
	}
}

func (s *gsched) selectResult(w *Worker, instr *ssa.Select, chosen int, recv value, recvOk bool) value {
	r := tuple{w.tb.Const(64, uint64(int64(chosen))), w.tb.Bool(recvOk)}
	for i, st := range instr.States {
		if st.Dir == types.RecvOnly {
			var v value
			if i == chosen && recvOk {
				v = recv
			} else {
				v = w.zero(st.Chan.Type().Underlying().(*types.Chan).Elem())
			}
			r = append(r, v)
		}
	}
	return r
}

// ---- WaitGroup ----

func (s *gsched) wgAdd(w *Worker, p *value, d int) {
	st, ok := s.wgs[p]
	if !ok {
		st = &wgState{}
		s.wgs[p] = st
	}
	s.touch(p)
	st.n += d
	if st.n < 0 {
		w.throwRuntime("sync: negative WaitGroup counter")
	}
	if d < 0 {
		g := s.cur
		st.clk = join(st.clk, g.vc)
		g.vc[g.id]++
	}
}

func (s *gsched) wgWait(w *Worker, p *value) {
	st, ok := s.wgs[p]
	if !ok {
		return
	}
	s.yield("wg.Wait")
	s.touch(p)
	for st.n > 0 {
		s.block(func() bool { return st.n == 0 }, "wg.Wait")
	}
	g := s.cur
	g.vc = join(g.vc, st.clk)
}

// ---- happens-before race detection ----

func (s *gsched) access(w *Worker, p *value, write bool) {
	if !s.active {
		return
	}
	switch a := (*p).(type) {
	case structure:
		for i := range a {
			s.access(w, &a[i], write)
		}
		return
	case array:
		for i := range a {
			s.access(w, &a[i], write)
		}
		return
	}
	l, ok := s.locs[p]
	if !ok {
		l = &locState{wg: -1}
		s.locs[p] = l
	}
	s.check(w, l, write, "memory")
}

func (s *gsched) accessMap(w *Worker, m *symMap, write bool) {
	if !s.active {
		return
	}
	l, ok := s.mapLocs[m]
	if !ok {
		l = &locState{wg: -1}
		s.mapLocs[m] = l
	}
	s.check(w, l, write, "map")
}

func (s *gsched) check(w *Worker, l *locState, write bool, what string) {
	g := s.cur
	if l.wg >= 0 && l.wg != g.id && l.wclk > g.vc.get(l.wg) {
		s.race(w, what, l.wpos, "write", write)
	}
	if write {
		for r, clk := range l.reads {
			if r != g.id && clk > g.vc.get(r) {
				s.race(w, what, l.rpos[r], "read", write)
			}
		}
		l.wg, l.wclk, l.wpos = g.id, g.vc[g.id], w.curPos
		l.reads, l.rpos = nil, nil
		return
	}
	if l.reads == nil {
		l.reads, l.rpos = map[int]int{}, map[int]token.Pos{}
	}
	l.reads[g.id] = g.vc[g.id]
	l.rpos[g.id] = w.curPos
}

func (s *gsched) race(w *Worker, what string, otherPos token.Pos, otherKind string, write bool) {
	kind := "read"
	if write {
		kind = "write"
	}
	label := fmt.Sprintf("data race (%s): %s at %s is concurrent with %s at %s", what, kind, w.posStr(w.curPos), otherKind, w.posStr(otherPos))
	if w.live() {
		if vec := w.modelVectorChecked(); vec != nil {
			w.recordViolation("race", label, w.curPos, vec, "")
		}
	}
	s.fatal(pathEnd{kind: "violation"})
}
