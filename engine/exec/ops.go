package exec

import (
	"fmt"
	"go/constant"
	"go/token"
	"go/types"
	"unicode/utf8"

	"golang.org/x/tools/go/ssa"

	"vsym/sym"
)

func (w *Worker) constValue(c *ssa.Const) value {
	if v, ok := w.consts[c]; ok {
		return v
	}
	v := w.constValue1(c)
	w.consts[c] = v
	return v
}

func (w *Worker) constValue1(c *ssa.Const) value {
	if c.Value == nil {
		return w.zero(c.Type())
	}
	if t, ok := c.Type().Underlying().(*types.Basic); ok {
		switch {
		case t.Info()&types.IsBoolean != 0:
			return w.tb.Bool(constantBool(c))
		case t.Info()&types.IsInteger != 0:
			wd, signed, _ := intInfo(t)
			if signed {
				return w.tb.Const(wd, uint64(c.Int64()))
			}
			return w.tb.Const(wd, c.Uint64())
		case t.Info()&types.IsFloat != 0:
			return w.tb.FConst(c.Float64())
		case t.Info()&types.IsString != 0:
			return constantString(c)
		}
	}
	panic(fmt.Sprintf("constValue: %s", c))
}

func (w *Worker) shiftAmount(y T, wx uint8) T {
	tb := w.tb
	if y.W == wx {
		return y
	}
	if y.W < wx {
		return tb.ZExt(y, wx)
	}
	// wider shift count: saturate
	if y.IsConst() {
		if y.V >= uint64(wx) {
			return tb.Const(wx, uint64(wx))
		}
		return tb.Const(wx, y.V)
	}
	return tb.Ite(tb.Ult(y, tb.Const(y.W, uint64(wx))), tb.Trunc(y, wx), tb.Const(wx, uint64(wx)))
}

func (w *Worker) binop(op token.Token, t types.Type, x, y value) value {
	tb := w.tb
	switch xv := x.(type) {
	case T:
		yv := y.(T)
		switch xv.S {
		case sym.SBool:
			switch op {
			case token.EQL:
				return tb.Eq(xv, yv)
			case token.NEQ:
				return tb.Ne(xv, yv)
			case token.AND, token.LAND:
				return tb.BAnd(xv, yv)
			case token.OR, token.LOR:
				return tb.BOr(xv, yv)
			}
		case sym.SF64:
			switch op {
			case token.ADD:
				return tb.FBin(sym.KFAdd, xv, yv)
			case token.SUB:
				return tb.FBin(sym.KFSub, xv, yv)
			case token.MUL:
				return tb.FBin(sym.KFMul, xv, yv)
			case token.QUO:
				return tb.FBin(sym.KFDiv, xv, yv)
			case token.EQL:
				return tb.FCmp(sym.KFEq, xv, yv)
			case token.NEQ:
				return tb.BNot(tb.FCmp(sym.KFEq, xv, yv))
			case token.LSS:
				return tb.FCmp(sym.KFLt, xv, yv)
			case token.LEQ:
				return tb.FCmp(sym.KFLe, xv, yv)
			case token.GTR:
				return tb.FCmp(sym.KFLt, yv, xv)
			case token.GEQ:
				return tb.FCmp(sym.KFLe, yv, xv)
			}
		case sym.SInt:
			_, signed, _ := intInfo(t)
			switch op {
			case token.ADD:
				return tb.Add(xv, yv)
			case token.SUB:
				return tb.Sub(xv, yv)
			case token.MUL:
				return tb.Mul(xv, yv)
			case token.QUO, token.REM:
				if yv.IsConst() {
					if yv.V == 0 {
						w.throwRuntime("integer divide by zero")
					}
				} else if w.branch(tb.Eq(yv, tb.Const(yv.W, 0))) {
					w.throwRuntime("integer divide by zero")
				}
				if op == token.QUO {
					if signed {
						return tb.SDiv(xv, yv)
					}
					return tb.UDiv(xv, yv)
				}
				if signed {
					return tb.SRem(xv, yv)
				}
				return tb.URem(xv, yv)
			case token.AND:
				return tb.And(xv, yv)
			case token.OR:
				return tb.Or(xv, yv)
			case token.XOR:
				return tb.Xor(xv, yv)
			case token.AND_NOT:
				return tb.And(xv, tb.Not(yv))
			case token.SHL:
				return tb.Shl(xv, w.shiftAmount(yv, xv.W))
			case token.SHR:
				if signed {
					return tb.AShr(xv, w.shiftAmount(yv, xv.W))
				}
				return tb.LShr(xv, w.shiftAmount(yv, xv.W))
			case token.EQL:
				return tb.Eq(xv, yv)
			case token.NEQ:
				return tb.Ne(xv, yv)
			case token.LSS:
				if signed {
					return tb.Slt(xv, yv)
				}
				return tb.Ult(xv, yv)
			case token.LEQ:
				if signed {
					return tb.Sle(xv, yv)
				}
				return tb.Ule(xv, yv)
			case token.GTR:
				if signed {
					return tb.Sgt(xv, yv)
				}
				return tb.Ugt(xv, yv)
			case token.GEQ:
				if signed {
					return tb.Sge(xv, yv)
				}
				return tb.Uge(xv, yv)
			}
		}
	case string:
		ys := y.(string)
		switch op {
		case token.ADD:
			return xv + ys
		case token.EQL:
			return tb.Bool(xv == ys)
		case token.NEQ:
			return tb.Bool(xv != ys)
		case token.LSS:
			return tb.Bool(xv < ys)
		case token.LEQ:
			return tb.Bool(xv <= ys)
		case token.GTR:
			return tb.Bool(xv > ys)
		case token.GEQ:
			return tb.Bool(xv >= ys)
		}
	}
	switch op {
	case token.EQL:
		return w.eqv(x, y)
	case token.NEQ:
		return tb.BNot(w.eqv(x, y))
	}
	panic(fmt.Sprintf("invalid binary op: %T %s %T", x, op, y))
}

func (w *Worker) unop(fr *frame, instr *ssa.UnOp, x value) value {
	tb := w.tb
	switch instr.Op {
	case token.ARROW:
		return w.chanRecv(x.(*channel), instr.CommaOk, instr.Type())
	case token.SUB:
		t := x.(T)
		if t.S == sym.SF64 {
			return tb.FNeg(t)
		}
		return tb.Neg(t)
	case token.MUL:
		p := x.(*value)
		if p == nil {
			w.throwRuntime("invalid memory address or nil pointer dereference")
		}
		w.noteRead(p)
		return load(p)
	case token.NOT:
		return tb.BNot(x.(T))
	case token.XOR:
		return tb.Not(x.(T))
	}
	panic(fmt.Sprintf("invalid unary op %s %T", instr.Op, x))
}

func (w *Worker) conv(tDst, tSrc types.Type, x value) value {
	tb := w.tb
	utSrc := tSrc.Underlying()
	utDst := tDst.Underlying()
	switch utSrc.(type) {
	case *types.Signature, *types.Map, *types.Chan, *types.Struct, *types.Array, *types.Interface:
		return x
	case *types.Pointer:
		if b, ok := utDst.(*types.Basic); ok && b.Kind() == types.UnsafePointer {
			w.unsupported("conversion to unsafe.Pointer")
		}
		return x
	case *types.Slice:
		// []byte/[]rune -> string
		if isString(utDst) {
			s := x.([]value)
			elem := utSrc.(*types.Slice).Elem().Underlying().(*types.Basic)
			if elem.Kind() == types.Uint8 {
				b := make([]byte, len(s))
				for i, e := range s {
					t := e.(T)
					if !t.IsConst() {
						w.unsupported("string([]byte) with symbolic bytes")
					}
					b[i] = byte(t.V)
				}
				return string(b)
			}
			r := make([]rune, len(s))
			for i, e := range s {
				t := e.(T)
				if !t.IsConst() {
					w.unsupported("string([]rune) with symbolic runes")
				}
				r[i] = rune(t.SVal())
			}
			return string(r)
		}
		return x
	}
	src, ok := utSrc.(*types.Basic)
	if !ok {
		panic(fmt.Sprintf("conv: unsupported source %s -> %s", tSrc, tDst))
	}
	if src.Kind() == types.UnsafePointer {
		w.unsupported("conversion from unsafe.Pointer")
	}
	if src.Info()&types.IsString != 0 {
		s := x.(string)
		switch d := utDst.(type) {
		case *types.Slice:
			elem := d.Elem().Underlying().(*types.Basic)
			if elem.Kind() == types.Uint8 {
				out := make([]value, len(s))
				for i := 0; i < len(s); i++ {
					out[i] = tb.Const(8, uint64(s[i]))
				}
				return out
			}
			var out []value
			for _, r := range s {
				out = append(out, tb.Const(32, uint64(r)))
			}
			return out
		case *types.Basic:
			if d.Info()&types.IsString != 0 {
				return x
			}
		}
		panic(fmt.Sprintf("conv: string -> %s", tDst))
	}
	dst, ok := utDst.(*types.Basic)
	if !ok {
		panic(fmt.Sprintf("conv: unsupported %s -> %s", tSrc, tDst))
	}
	t := x.(T)
	switch {
	case src.Info()&types.IsInteger != 0:
		_, ssigned, _ := intInfo(src)
		switch {
		case dst.Info()&types.IsInteger != 0:
			wd, _, _ := intInfo(dst)
			if wd < t.W {
				return tb.Trunc(t, wd)
			}
			if ssigned {
				return tb.SExt(t, wd)
			}
			return tb.ZExt(t, wd)
		case dst.Info()&types.IsFloat != 0:
			return tb.FFromInt(t, ssigned)
		case dst.Info()&types.IsString != 0:
			if !t.IsConst() {
				w.unsupported("string(symbolic rune)")
			}
			return string(rune(t.SVal()))
		case dst.Kind() == types.UnsafePointer:
			w.unsupported("uintptr -> unsafe.Pointer")
		}
	case src.Info()&types.IsFloat != 0:
		switch {
		case dst.Info()&types.IsFloat != 0:
			if dst.Kind() == types.Float32 {
				w.unsupported("float32")
			}
			return t
		case dst.Info()&types.IsInteger != 0:
			wd, dsigned, _ := intInfo(dst)
			return tb.FToInt(t, wd, dsigned)
		}
	case src.Info()&types.IsBoolean != 0:
		return t
	}
	panic(fmt.Sprintf("conv: unsupported %s -> %s", tSrc, tDst))
}

func (w *Worker) sliceBound(v value, def int, max int, what string) int {
	if v == nil {
		return def
	}
	t := v.(T)
	if t.IsConst() {
		i := t.SVal()
		if i < 0 || i > int64(max) {
			w.throwRuntime(fmt.Sprintf("slice bounds out of range [%s %d] with capacity %d", what, i, max))
		}
		return int(i)
	}
	if max > w.eng.Opt.MaxFork {
		w.unsupported("symbolic slice bound with capacity %d", max)
	}
	i := w.concretize(t, max+1, "slice-"+what)
	if i < 0 {
		w.throwRuntime(fmt.Sprintf("slice bounds out of range [%s symbolic] with capacity %d", what, max))
	}
	return i
}

func (w *Worker) slice(instr *ssa.Slice, x, lo, hi, max value) value {
	switch x := x.(type) {
	case string:
		l := w.sliceBound(lo, 0, len(x), "lo")
		h := w.sliceBound(hi, len(x), len(x), "hi")
		if l > h {
			w.throwRuntime(fmt.Sprintf("slice bounds out of range [%d:%d]", l, h))
		}
		return x[l:h]
	case []value:
		c := cap(x)
		l := w.sliceBound(lo, 0, c, "lo")
		h := w.sliceBound(hi, len(x), c, "hi")
		m := w.sliceBound(max, c, c, "max")
		if l > h || h > m {
			w.throwRuntime(fmt.Sprintf("slice bounds out of range [%d:%d:%d]", l, h, m))
		}
		if x == nil {
			return x
		}
		return x[l:h:m]
	case *value:
		if x == nil {
			w.throwRuntime("invalid memory address or nil pointer dereference (slice of nil array pointer)")
		}
		a := []value((*x).(array))
		c := len(a)
		l := w.sliceBound(lo, 0, c, "lo")
		h := w.sliceBound(hi, c, c, "hi")
		m := w.sliceBound(max, c, c, "max")
		if l > h || h > m {
			w.throwRuntime(fmt.Sprintf("slice bounds out of range [%d:%d:%d]", l, h, m))
		}
		return a[l:h:m]
	}
	panic(fmt.Sprintf("slice: unexpected X type: %T", x))
}

func (w *Worker) lookup(instr *ssa.Lookup, x, idx value) value {
	switch x := x.(type) {
	case string:
		i := w.index(idx.(T), instr.Index.Type(), len(x))
		return w.tb.Const(8, uint64(x[i]))
	case *symMap:
		var v value
		ok := false
		if x != nil {
			w.noteMapRead(x)
			if e := x.find(w, idx); e != nil {
				v = copyVal(e.val)
				ok = true
			}
		}
		if !ok {
			v = w.zero(instr.X.Type().Underlying().(*types.Map).Elem())
		}
		if instr.CommaOk {
			return tuple{v, w.tb.Bool(ok)}
		}
		return v
	}
	panic(fmt.Sprintf("unexpected x type in Lookup: %T", x))
}

func (w *Worker) typeAssert(instr *ssa.TypeAssert, itf iface) value {
	var v value
	err := ""
	if itf.t == nil {
		err = fmt.Sprintf("interface conversion: interface is nil, not %s", instr.AssertedType)
	} else if idst, ok := instr.AssertedType.Underlying().(*types.Interface); ok {
		v = itf
		if !types.Implements(itf.t, idst) && !implementsViaMethodSet(w, itf.t, idst) {
			err = fmt.Sprintf("interface conversion: %v is not %v", itf.t, idst)
		}
	} else if types.Identical(itf.t, instr.AssertedType) {
		v = itf.v
	} else {
		err = fmt.Sprintf("interface conversion: interface is %s, not %s", itf.t, instr.AssertedType)
	}
	if err != "" {
		if !instr.CommaOk {
			w.throwRuntime(err)
		}
		return tuple{w.zero(instr.AssertedType), w.tb.False}
	}
	if instr.CommaOk {
		return tuple{v, w.tb.True}
	}
	return v
}

func implementsViaMethodSet(w *Worker, t types.Type, i *types.Interface) bool {
	ms := w.eng.Prog.MethodSets.MethodSet(t)
	for k := 0; k < i.NumMethods(); k++ {
		m := i.Method(k)
		sel := ms.Lookup(m.Pkg(), m.Name())
		if sel == nil {
			return false
		}
	}
	return true
}

// ---- iterators ----

type iter interface {
	next(w *Worker) tuple
}

type stringIter struct {
	s string
	i int
}

func (it *stringIter) next(w *Worker) tuple {
	tb := w.tb
	if it.i >= len(it.s) {
		return tuple{tb.False, tb.Const(64, 0), tb.Const(32, 0)}
	}
	r, sz := utf8.DecodeRuneInString(it.s[it.i:])
	i := it.i
	it.i += sz
	return tuple{tb.True, tb.Const(64, uint64(i)), tb.Const(32, uint64(r))}
}

func (w *Worker) rangeIter(x value, t types.Type) iter {
	switch x := x.(type) {
	case *symMap:
		return x.iterator(w)
	case string:
		return &stringIter{s: x}
	}
	panic(fmt.Sprintf("cannot range over %T", x))
}

// ---- builtins ----

func (w *Worker) callBuiltin(caller *frame, pos token.Pos, fn *ssa.Builtin, args []value) value {
	tb := w.tb
	switch fn.Name() {
	case "append":
		if len(args) == 1 {
			return args[0]
		}
		if s, ok := args[1].(string); ok {
			// append([]byte, string...)
			dst := args[0].([]value)
			for i := 0; i < len(s); i++ {
				dst = w.append1(dst, tb.Const(8, uint64(s[i])))
			}
			return dst
		}
		dst := args[0].([]value)
		src := args[1].([]value)
		if len(src) == 0 {
			return dst
		}
		// Go's growth rule (without size classes): double below 256, then 1.25x+192
		need := len(dst) + len(src)
		if need > cap(dst) {
			nc := growCap(cap(dst), need)
			nd := make([]value, len(dst), nc)
			copy(nd, dst)
			dst = nd
		}
		n := len(dst)
		dst = dst[:need]
		for i, e := range src {
			if w.gor != nil {
				w.noteRead(&src[i])
				w.noteWrite(&dst[n+i])
			}
			dst[n+i] = copyVal(e)
		}
		return dst

	case "copy":
		dst := args[0].([]value)
		if s, ok := args[1].(string); ok {
			n := len(s)
			if len(dst) < n {
				n = len(dst)
			}
			for i := 0; i < n; i++ {
				dst[i] = tb.Const(8, uint64(s[i]))
			}
			return tb.Const(64, uint64(n))
		}
		src := args[1].([]value)
		n := len(src)
		if len(dst) < n {
			n = len(dst)
		}
		// overlapping-safe, deep copy of aggregates
		tmp := make([]value, n)
		for i := 0; i < n; i++ {
			if w.gor != nil {
				w.noteRead(&src[i])
				w.noteWrite(&dst[i])
			}
			tmp[i] = copyVal(src[i])
		}
		copy(dst, tmp)
		return tb.Const(64, uint64(n))

	case "close":
		w.chanClose(args[0].(*channel))
		return nil

	case "delete":
		m := args[0].(*symMap)
		if m != nil {
			w.noteMapWrite(m)
			m.remove(w, args[1])
		}
		return nil

	case "clear":
		switch x := args[0].(type) {
		case *symMap:
			if x != nil {
				x.clear()
			}
		case []value:
			if len(x) > 0 {
				elemT := fn.Type().(*types.Signature).Params().At(0).Type().Underlying().(*types.Slice).Elem()
				for i := range x {
					x[i] = w.zero(elemT)
				}
			}
		}
		return nil

	case "print", "println":
		return nil

	case "len":
		switch x := args[0].(type) {
		case string:
			return tb.Const(64, uint64(len(x)))
		case array:
			return tb.Const(64, uint64(len(x)))
		case *value:
			if x == nil {
				// len(*[N]T)(nil) is N by type; rare
				w.unsupported("len of nil array pointer")
			}
			return tb.Const(64, uint64(len((*x).(array))))
		case []value:
			return tb.Const(64, uint64(len(x)))
		case *symMap:
			if x == nil {
				return tb.Const(64, 0)
			}
			return tb.Const(64, uint64(x.length()))
		case *channel:
			if x == nil {
				return tb.Const(64, 0)
			}
			return tb.Const(64, uint64(len(x.buf)))
		}
		panic(fmt.Sprintf("len: illegal operand: %T", args[0]))

	case "cap":
		switch x := args[0].(type) {
		case array:
			return tb.Const(64, uint64(len(x)))
		case *value:
			return tb.Const(64, uint64(len((*x).(array))))
		case []value:
			return tb.Const(64, uint64(cap(x)))
		case *channel:
			if x == nil {
				return tb.Const(64, 0)
			}
			return tb.Const(64, uint64(x.cap))
		}
		panic(fmt.Sprintf("cap: illegal operand: %T", args[0]))

	case "min", "max":
		sig := fn.Type().(*types.Signature)
		t0 := sig.Params().At(0).Type()
		r := args[0]
		for _, a := range args[1:] {
			if s, ok := r.(string); ok {
				as := a.(string)
				if (fn.Name() == "min") == (as < s) {
					r = as
				}
				continue
			}
			var lt T
			if fn.Name() == "min" {
				lt = w.binop(token.LSS, t0, a, r).(T)
			} else {
				lt = w.binop(token.GTR, t0, a, r).(T)
			}
			if lt.IsConst() {
				if lt.IsTrue() {
					r = a
				}
			} else {
				rt := r.(T)
				if rt.S == sym.SInt {
					r = tb.Ite(lt, a.(T), rt)
				} else if w.branch(lt) {
					r = a
				}
			}
		}
		return r

	case "recover":
		return w.doRecover(caller)

	case "ssa:wrapnilchk":
		recv := args[0]
		if p, ok := recv.(*value); ok && p == nil {
			w.throwRuntime(fmt.Sprintf("value method %s.%s called using nil pointer", args[1], args[2]))
		}
		return recv

	case "panic":
		panic(targetPanic{v: args[0], pos: pos})
	}
	panic("unknown built-in: " + fn.Name())
}

func growCap(old, need int) int {
	nc := old
	dbl := nc + nc
	if need > dbl {
		return need
	}
	const threshold = 256
	if old < threshold {
		if dbl == 0 {
			return need
		}
		return dbl
	}
	for nc < need {
		nc += (nc + 3*threshold) / 4
	}
	return nc
}

func (w *Worker) append1(dst []value, e value) []value {
	if len(dst) == cap(dst) {
		nd := make([]value, len(dst), growCap(cap(dst), len(dst)+1))
		copy(nd, dst)
		dst = nd
	}
	dst = dst[:len(dst)+1]
	dst[len(dst)-1] = e
	return dst
}

func (w *Worker) doRecover(caller *frame) value {
	// recover() is called by a deferred function (caller); the panicking
	// frame is caller.caller.
	if caller != nil && !caller.panicking && caller.caller != nil && caller.caller.panicking {
		caller.caller.panicking = false
		p := caller.caller.panic
		caller.caller.panic = nil
		if tp, ok := p.(targetPanic); ok {
			return tp.v
		}
		panic(p)
	}
	return iface{}
}

func constantBool(c *ssa.Const) bool { return constant.BoolVal(c.Value) }

func constantString(c *ssa.Const) string {
	if c.Value.Kind() == constant.String {
		return constant.StringVal(c.Value)
	}
	// integer constant converted to string type
	if v, ok := constant.Int64Val(c.Value); ok {
		return string(rune(v))
	}
	return c.Value.ExactString()
}
