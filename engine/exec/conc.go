package exec

import (
	"go/types"

	"golang.org/x/tools/go/ssa"
)

// Goroutines and channels: see gor.go (modelled coroutines). These are the
// hooks the sequential interpreter calls.

type channel struct {
	buf         []value
	cap         int
	closed      bool
	closeClk    vclock
	recvWaiting int
}

type gorState struct {
	sched *gsched
}

func (w *Worker) noteWrite(p *value)       { if w.gor != nil { w.gor.sched.access(w, p, true) } }
func (w *Worker) noteRead(p *value)        { if w.gor != nil { w.gor.sched.access(w, p, false) } }
func (w *Worker) noteMapWrite(m *symMap)   { if w.gor != nil { w.gor.sched.accessMap(w, m, true) } }
func (w *Worker) noteMapRead(m *symMap)    { if w.gor != nil { w.gor.sched.accessMap(w, m, false) } }

func (w *Worker) makeChan(n int) *channel {
	return &channel{cap: n}
}

func (w *Worker) chanSend(c *channel, v value) {
	w.sched().send(w, c, v)
}

func (w *Worker) chanRecv(c *channel, commaOk bool, t types.Type) value {
	return w.sched().recv(w, c, commaOk, t)
}

func (w *Worker) chanClose(c *channel) {
	w.sched().closeChan(w, c)
}

func (w *Worker) goStart(fr *frame, instr *ssa.Go, fn value, args []value) {
	w.sched().spawn(w, fr, instr, fn, args)
}

func (w *Worker) selectStmt(fr *frame, instr *ssa.Select) value {
	return w.sched().selectStmt(w, fr, instr)
}

func (w *Worker) sched() *gsched {
	if w.gor == nil {
		w.gor = &gorState{sched: newGsched(w)}
	}
	return w.gor.sched
}
