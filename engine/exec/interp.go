package exec

import (
	"fmt"
	"go/token"
	"go/types"

	"golang.org/x/tools/go/ssa"

	"vsym/sym"
)

type fnInfo struct {
	idx      map[ssa.Value]int
	n        int
	hasDefer bool
	name     string
}

func (w *Worker) info(fn *ssa.Function) *fnInfo {
	if fi, ok := w.fninfo[fn]; ok {
		return fi
	}
	fi := &fnInfo{idx: map[ssa.Value]int{}, name: fn.String()}
	add := func(v ssa.Value) {
		fi.idx[v] = fi.n
		fi.n++
	}
	for _, p := range fn.Params {
		add(p)
	}
	for _, fv := range fn.FreeVars {
		add(fv)
	}
	for _, b := range fn.Blocks {
		for _, in := range b.Instrs {
			if v, ok := in.(ssa.Value); ok {
				add(v)
			}
			if _, ok := in.(*ssa.Defer); ok {
				fi.hasDefer = true
			}
		}
	}
	if fn.Recover != nil {
		fi.hasDefer = true
	}
	w.fninfo[fn] = fi
	return fi
}

type deferred struct {
	fn    value
	args  []value
	instr *ssa.Defer
	tail  *deferred
}

type frame struct {
	w                *Worker
	caller           *frame
	fn               *ssa.Function
	fi               *fnInfo
	block, prevBlock *ssa.BasicBlock
	env              []value
	defers           *deferred
	result           value
	panicking        bool
	panic            interface{}
	phitemps         []value
	nsteps           int64
	stackLen, depth0 int
}

func (fr *frame) get(key ssa.Value) value {
	switch key := key.(type) {
	case nil:
		return nil
	case *ssa.Function:
		return key
	case *ssa.Builtin:
		return key
	case *ssa.Const:
		return fr.w.constValue(key)
	case *ssa.Global:
		return fr.w.global(key)
	}
	if i, ok := fr.fi.idx[key]; ok {
		return fr.env[i]
	}
	panic(fmt.Sprintf("get: no value for %T: %v", key, key.Name()))
}

func (fr *frame) set(key ssa.Value, v value) {
	fr.env[fr.fi.idx[key]] = v
}

func (w *Worker) global(g *ssa.Global) *value {
	if p, ok := w.globals[g]; ok {
		return p
	}
	cell := w.zero(deref(g.Type()))
	p := &cell
	w.globals[g] = p
	return p
}

func (fr *frame) runDefer(d *deferred) {
	var ok bool
	defer func() {
		if !ok {
			r := recover()
			if pe, isPE := r.(pathEnd); isPE {
				panic(pe)
			}
			if _, isTP := r.(targetPanic); !isTP {
				panic(r) // engine bug: propagate
			}
			fr.panicking = true
			fr.panic = r
		}
	}()
	fr.w.call(fr, d.instr.Pos(), d.fn, d.args)
	ok = true
}

func (fr *frame) runDefers() {
	for d := fr.defers; d != nil; d = d.tail {
		fr.runDefer(d)
	}
	fr.defers = nil
	if fr.panicking {
		panic(fr.panic)
	}
}

func (w *Worker) prepareCall(fr *frame, call *ssa.CallCommon) (fn value, args []value) {
	v := fr.get(call.Value)
	if call.Method == nil {
		fn = v
	} else {
		recv := v.(iface)
		if recv.t == nil {
			w.throwRuntime("invalid memory address or nil pointer dereference (method call on nil interface)")
		}
		f := w.eng.Prog.LookupMethod(recv.t, call.Method.Pkg(), call.Method.Name())
		if f == nil {
			panic(fmt.Sprintf("method set for dynamic type %v does not contain %s", recv.t, call.Method))
		}
		fn = f
		args = append(args, recv.v)
	}
	for _, arg := range call.Args {
		args = append(args, fr.get(arg))
	}
	return
}

func (w *Worker) call(caller *frame, pos token.Pos, fn value, args []value) value {
	switch fn := fn.(type) {
	case *ssa.Function:
		if fn == nil {
			w.throwRuntime("invalid memory address or nil pointer dereference (call of nil func)")
		}
		return w.callSSA(caller, pos, fn, args, nil)
	case *closure:
		if fn == nil {
			w.throwRuntime("invalid memory address or nil pointer dereference (call of nil func)")
		}
		return w.callSSA(caller, pos, fn.Fn, args, fn.Env)
	case *ssa.Builtin:
		return w.callBuiltin(caller, pos, fn, args)
	}
	panic(fmt.Sprintf("cannot call %T", fn))
}

// callFn: entry from the driver.
func (w *Worker) callFn(fn *ssa.Function, args []value, pos token.Pos) value {
	return w.callSSA(nil, pos, fn, args, nil)
}

func (w *Worker) callSSA(caller *frame, callpos token.Pos, fn *ssa.Function, args []value, env []value) value {
	if fn.Parent() == nil {
		if red, ok := w.eng.redirect[fn]; ok && w.h.StubGroups[w.eng.redirectGroup[fn]] {
			w.res.Stubs[fn.String()]++
			fn = red
		} else if in := w.intrinsicFor(fn); in != nil {
			fr := &frame{w: w, caller: caller, fn: fn}
			w.curPos = callpos
			return in(fr, args)
		}
	}
	if fn.Blocks == nil {
		w.unsupported("no code for function %s", fn)
	}
	if fn.TypeParams().Len() > 0 && len(fn.TypeArgs()) == 0 {
		w.unsupported("uninstantiated generic %s", fn)
	}
	fi := w.info(fn)
	fr := &frame{w: w, caller: caller, fn: fn, fi: fi}
	fr.env = make([]value, fi.n)
	fr.block = fn.Blocks[0]
	for _, l := range fn.Locals {
		cell := w.zero(deref(l.Type()))
		fr.env[fi.idx[l]] = &cell
	}
	for i, p := range fn.Params {
		fr.env[fi.idx[p]] = args[i]
	}
	for i, fv := range fn.FreeVars {
		fr.env[fi.idx[fv]] = env[i]
	}
	w.depth++
	if w.depth > w.eng.Opt.MaxDepth {
		panic(pathEnd{kind: "bound", msg: "call depth > " + fmt.Sprint(w.eng.Opt.MaxDepth) + " in " + fn.String()})
	}
	w.callStack = append(w.callStack, fn)
	fr.stackLen, fr.depth0 = len(w.callStack), w.depth
	for fr.block != nil {
		w.runFrame(fr)
	}
	w.callStack = w.callStack[:len(w.callStack)-1]
	w.depth--
	w.res.Funcs[fi.name] += fr.nsteps
	return fr.result
}

func (w *Worker) runFrame(fr *frame) {
	if fr.fi.hasDefer {
		defer func() {
			if fr.block == nil {
				return // normal return
			}
			r := recover()
			if _, ok := r.(targetPanic); !ok {
				panic(r) // pathEnd or engine bug
			}
			fr.panicking = true
			fr.panic = r
			// restore call stack depth to this frame
			w.callStack = w.callStack[:fr.stackLen]
			w.depth = fr.depth0
			fr.runDefers()
			fr.block = fr.fn.Recover
			if fr.block == nil {
				// recovered, no named results: return zero values
				fr.result = w.zeroResults(fr.fn)
			}
		}()
	}
	for {
		// phis
		instrs := fr.block.Instrs
		first := 0
		for first < len(instrs) {
			if _, ok := instrs[first].(*ssa.Phi); !ok {
				break
			}
			first++
		}
		if first > 0 {
			predIndex := -1
			for i, p := range fr.block.Preds {
				if p == fr.prevBlock {
					predIndex = i
					break
				}
			}
			fr.phitemps = fr.phitemps[:0]
			for _, in := range instrs[:first] {
				fr.phitemps = append(fr.phitemps, fr.get(in.(*ssa.Phi).Edges[predIndex]))
			}
			for i, in := range instrs[:first] {
				fr.set(in.(*ssa.Phi), fr.phitemps[i])
			}
		}
		jumped := false
		for _, instr := range instrs[first:] {
			fr.nsteps++
			w.steps++
			if w.steps > w.eng.Opt.MaxSteps {
				panic(pathEnd{kind: "bound", msg: fmt.Sprintf("step budget %d exhausted", w.eng.Opt.MaxSteps)})
			}
			switch w.visitInstr(fr, instr) {
			case kReturn:
				return
			case kJump:
				jumped = true
			}
			if jumped {
				break
			}
		}
		if !jumped {
			panic("block fell through: " + fr.fn.String())
		}
	}
}

func (w *Worker) zeroResults(fn *ssa.Function) value {
	res := fn.Signature.Results()
	switch res.Len() {
	case 0:
		return nil
	case 1:
		return w.zero(res.At(0).Type())
	}
	t := make(tuple, res.Len())
	for i := range t {
		t[i] = w.zero(res.At(i).Type())
	}
	return t
}

type continuation int

const (
	kNext continuation = iota
	kReturn
	kJump
)

func (w *Worker) asInt(v value, what string) int {
	t := v.(T)
	if !t.IsConst() {
		w.unsupported("symbolic %s", what)
	}
	return int(t.SVal())
}

func (w *Worker) visitInstr(fr *frame, instr ssa.Instruction) continuation {
	switch instr := instr.(type) {
	case *ssa.DebugRef:

	case *ssa.UnOp:
		w.curPos = instr.Pos()
		fr.set(instr, w.unop(fr, instr, fr.get(instr.X)))

	case *ssa.BinOp:
		if p := instr.Pos(); p != token.NoPos {
			w.curPos = p
		}
		fr.set(instr, w.binop(instr.Op, instr.X.Type(), fr.get(instr.X), fr.get(instr.Y)))

	case *ssa.Call:
		fn, args := w.prepareCall(fr, &instr.Call)
		w.curPos = instr.Pos()
		fr.set(instr, w.call(fr, instr.Pos(), fn, args))

	case *ssa.ChangeInterface:
		fr.set(instr, fr.get(instr.X))

	case *ssa.ChangeType:
		fr.set(instr, fr.get(instr.X))

	case *ssa.Convert:
		fr.set(instr, w.conv(instr.Type(), instr.X.Type(), fr.get(instr.X)))

	case *ssa.SliceToArrayPointer:
		x := fr.get(instr.X).([]value)
		n := int(deref(instr.Type()).Underlying().(*types.Array).Len())
		if len(x) < n {
			w.throwRuntime("cannot convert slice to array pointer: length too short")
		}
		if x == nil {
			fr.set(instr, (*value)(nil))
		} else {
			// array aliasing the slice's backing store
			var cell value = array(x[:n:n])
			fr.set(instr, &cell)
		}

	case *ssa.MakeInterface:
		fr.set(instr, iface{t: instr.X.Type(), v: fr.get(instr.X)})

	case *ssa.Extract:
		fr.set(instr, fr.get(instr.Tuple).(tuple)[instr.Index])

	case *ssa.Slice:
		w.curPos = instr.Pos()
		fr.set(instr, w.slice(instr, fr.get(instr.X), fr.get(instr.Low), fr.get(instr.High), fr.get(instr.Max)))

	case *ssa.Return:
		switch len(instr.Results) {
		case 0:
		case 1:
			fr.result = fr.get(instr.Results[0])
		default:
			res := make(tuple, len(instr.Results))
			for i, r := range instr.Results {
				res[i] = fr.get(r)
			}
			fr.result = res
		}
		fr.block = nil
		return kReturn

	case *ssa.RunDefers:
		fr.runDefers()

	case *ssa.Panic:
		panic(targetPanic{v: fr.get(instr.X), pos: instr.Pos()})

	case *ssa.Send:
		w.chanSend(fr.get(instr.Chan).(*channel), fr.get(instr.X))

	case *ssa.Store:
		w.curPos = instr.Pos()
		addr := fr.get(instr.Addr).(*value)
		if addr == nil {
			w.throwRuntime("invalid memory address or nil pointer dereference")
		}
		w.noteWrite(addr)
		store(addr, fr.get(instr.Val))

	case *ssa.If:
		c := fr.get(instr.Cond).(T)
		succ := 1
		if p := instr.Cond.Pos(); p != token.NoPos {
			w.curPos = p
		}
		if w.branch(c) {
			succ = 0
		}
		fr.prevBlock, fr.block = fr.block, fr.block.Succs[succ]
		return kJump

	case *ssa.Jump:
		fr.prevBlock, fr.block = fr.block, fr.block.Succs[0]
		return kJump

	case *ssa.Defer:
		fn, args := w.prepareCall(fr, &instr.Call)
		defers := &fr.defers
		if instr.DeferStack != nil {
			if into := fr.get(instr.DeferStack); into != nil {
				w.unsupported("defer stack (rangefunc)")
			}
		}
		*defers = &deferred{fn: fn, args: args, instr: instr, tail: *defers}

	case *ssa.Go:
		fn, args := w.prepareCall(fr, &instr.Call)
		w.goStart(fr, instr, fn, args)

	case *ssa.MakeChan:
		fr.set(instr, w.makeChan(w.asInt(fr.get(instr.Size), "chan size")))

	case *ssa.Alloc:
		cell := w.zero(deref(instr.Type()))
		if instr.Heap {
			fr.set(instr, &cell)
		} else {
			// re-zero local
			p := fr.get(instr).(*value)
			*p = cell
		}

	case *ssa.MakeSlice:
		w.curPos = instr.Pos()
		if w.allocLimit > 0 {
			// harness-declared allocation bound (C19): a make() whose length can
			// exceed it is a violation, with a model for the offending input
			ct := fr.get(instr.Cap).(T)
			over := w.tb.Ugt(ct, w.tb.Const(ct.W, uint64(w.allocLimit)))
			if !over.IsFalse() && (over.IsTrue() || w.branch(over)) {
				if w.live() {
					// prefer an input whose request is large enough for the native
					// allocation meter to confirm it; any request over the limit otherwise
					var vec []VecEntry
					big := w.tb.Ugt(ct, w.tb.Const(ct.W, uint64(w.allocLimit)+65536))
					if !big.IsFalse() {
						w.solver.Push()
						w.solver.Assert(big)
						if w.solver.Check() == sym.Sat {
							vec = w.modelVector()
						}
						w.solver.PopTo(w.solver.Level() - 1)
					}
					if vec == nil {
						vec = w.modelVectorChecked()
					}
					if vec != nil {
						w.recordViolation("assert", "allocation out of proportion to the input", instr.Pos(), vec, "")
					}
				}
				panic(pathEnd{kind: "violation"})
			}
		}
		n := w.concreteLen(fr.get(instr.Len).(T), "make len")
		c := w.concreteLen(fr.get(instr.Cap).(T), "make cap")
		if n < 0 || c < n {
			w.throwRuntime("makeslice: len out of range")
		}
		if c > w.eng.Opt.MaxAlloc {
			panic(pathEnd{kind: "bound", msg: fmt.Sprintf("make([]T, %d) exceeds engine allocation bound %d at %s", c, w.eng.Opt.MaxAlloc, w.posStr(instr.Pos()))})
		}
		s := make([]value, c)
		tElt := instr.Type().Underlying().(*types.Slice).Elem()
		for i := range s {
			s[i] = w.zero(tElt)
		}
		fr.set(instr, s[:n])

	case *ssa.MakeMap:
		fr.set(instr, newSymMap())

	case *ssa.Range:
		fr.set(instr, w.rangeIter(fr.get(instr.X), instr.X.Type()))

	case *ssa.Next:
		fr.set(instr, fr.get(instr.Iter).(iter).next(w))

	case *ssa.FieldAddr:
		p := fr.get(instr.X).(*value)
		if p == nil {
			w.curPos = instr.Pos()
			w.throwRuntime("invalid memory address or nil pointer dereference")
		}
		fr.set(instr, &(*p).(structure)[instr.Field])

	case *ssa.Field:
		fr.set(instr, fr.get(instr.X).(structure)[instr.Field])

	case *ssa.IndexAddr:
		w.curPos = instr.Pos()
		x := fr.get(instr.X)
		idx := fr.get(instr.Index).(T)
		switch x := x.(type) {
		case []value:
			i := w.index(idx, instr.Index.Type(), len(x))
			fr.set(instr, &x[i])
		case *value:
			if x == nil {
				w.throwRuntime("invalid memory address or nil pointer dereference")
			}
			a := (*x).(array)
			i := w.index(idx, instr.Index.Type(), len(a))
			fr.set(instr, &a[i])
		default:
			panic(fmt.Sprintf("unexpected x type in IndexAddr: %T", x))
		}

	case *ssa.Index:
		w.curPos = instr.Pos()
		x := fr.get(instr.X)
		idx := fr.get(instr.Index).(T)
		switch x := x.(type) {
		case array:
			i := w.index(idx, instr.Index.Type(), len(x))
			fr.set(instr, copyVal(x[i]))
		case string:
			i := w.index(idx, instr.Index.Type(), len(x))
			fr.set(instr, w.tb.Const(8, uint64(x[i])))
		default:
			panic(fmt.Sprintf("unexpected x type in Index: %T", x))
		}

	case *ssa.Lookup:
		w.curPos = instr.Pos()
		fr.set(instr, w.lookup(instr, fr.get(instr.X), fr.get(instr.Index)))

	case *ssa.MapUpdate:
		w.curPos = instr.Pos()
		m := fr.get(instr.Map).(*symMap)
		if m == nil {
			w.throwRuntime("assignment to entry in nil map")
		}
		w.noteMapWrite(m)
		m.update(w, fr.get(instr.Key), fr.get(instr.Value))

	case *ssa.TypeAssert:
		w.curPos = instr.Pos()
		fr.set(instr, w.typeAssert(instr, fr.get(instr.X).(iface)))

	case *ssa.MakeClosure:
		var bindings []value
		for _, b := range instr.Bindings {
			bindings = append(bindings, fr.get(b))
		}
		fr.set(instr, &closure{instr.Fn.(*ssa.Function), bindings})

	case *ssa.Select:
		fr.set(instr, w.selectStmt(fr, instr))

	default:
		panic(fmt.Sprintf("unexpected instruction: %T", instr))
	}
	return kNext
}

// index checks bounds of idx against n, forking when symbolic.
func (w *Worker) index(idx T, t types.Type, n int) int {
	if idx.IsConst() {
		_, signed, _ := intInfo(t)
		var i int64
		if signed {
			i = idx.SVal()
		} else {
			if idx.V > 1<<62 {
				i = -1
			} else {
				i = int64(idx.V)
			}
		}
		if i < 0 || i >= int64(n) {
			w.throwRuntime(fmt.Sprintf("index out of range [%d] with length %d", i, n))
		}
		return int(i)
	}
	if n > w.eng.Opt.MaxFork {
		w.unsupported("symbolic index into length %d", n)
	}
	i := w.concretize(idx, n, "index")
	if i < 0 {
		w.throwRuntime(fmt.Sprintf("index out of range [symbolic] with length %d", n))
	}
	return i
}

// concreteLen turns a length/cap operand into a concrete int (forking if symbolic and small).
func (w *Worker) concreteLen(t T, what string) int {
	if t.IsConst() {
		v := t.SVal()
		if t.W < 64 {
			v = int64(t.V)
		}
		if v < 0 || v > 1<<40 {
			return -1
		}
		return int(v)
	}
	lim := w.eng.Opt.MaxFork
	i := w.concretize(t, lim+1, what)
	if i < 0 {
		panic(pathEnd{kind: "bound", msg: fmt.Sprintf("symbolic %s beyond fork bound %d", what, lim)})
	}
	return i
}
