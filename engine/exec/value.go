// Package exec: symbolic interpreter for go/ssa. Control structure, pointers,
// lengths and dynamic types are concrete on every path; scalars are sym terms.
// Structure follows golang.org/x/tools/go/ssa/interp.
package exec

import (
	"fmt"
	"go/types"
	"strings"

	"golang.org/x/tools/go/ssa"

	"vsym/sym"
)

type value interface{}

// T is a symbolic scalar (int of some width, bool or float64).
type T = *sym.Term

type structure []value
type array []value
type tuple []value

type iface struct {
	t types.Type // dynamic type (nil for nil interface)
	v value
}

type closure struct {
	Fn  *ssa.Function
	Env []value
}

// bad marks dead locals.
type bad struct{}

// intInfo returns width/signedness of a basic integer type.
func intInfo(t types.Type) (w uint8, signed bool, ok bool) {
	b, isB := t.Underlying().(*types.Basic)
	if !isB {
		return 0, false, false
	}
	switch b.Kind() {
	case types.Int8:
		return 8, true, true
	case types.Int16:
		return 16, true, true
	case types.Int32, types.UntypedRune:
		return 32, true, true
	case types.Int64, types.Int, types.UntypedInt:
		return 64, true, true
	case types.Uint8:
		return 8, false, true
	case types.Uint16:
		return 16, false, true
	case types.Uint32:
		return 32, false, true
	case types.Uint64, types.Uint, types.Uintptr:
		return 64, false, true
	}
	return 0, false, false
}

func isFloat(t types.Type) bool {
	b, ok := t.Underlying().(*types.Basic)
	return ok && b.Info()&types.IsFloat != 0
}

func isBool(t types.Type) bool {
	b, ok := t.Underlying().(*types.Basic)
	return ok && b.Info()&types.IsBoolean != 0
}

func isString(t types.Type) bool {
	b, ok := t.Underlying().(*types.Basic)
	return ok && b.Info()&types.IsString != 0
}

func deref(t types.Type) types.Type {
	if p, ok := t.Underlying().(*types.Pointer); ok {
		return p.Elem()
	}
	panic(fmt.Sprintf("deref of non-pointer %s", t))
}

// zero returns a fresh zero value of type t.
func (w *Worker) zero(t types.Type) value {
	switch t := t.(type) {
	case *types.Basic:
		if t.Kind() == types.UntypedNil {
			panic("untyped nil has no zero value")
		}
		if t.Info()&types.IsUntyped != 0 {
			t = types.Default(t).(*types.Basic)
		}
		switch {
		case t.Info()&types.IsBoolean != 0:
			return w.tb.False
		case t.Info()&types.IsInteger != 0:
			wd, _, _ := intInfo(t)
			return w.tb.Const(wd, 0)
		case t.Info()&types.IsFloat != 0:
			return w.tb.FConst(0)
		case t.Info()&types.IsString != 0:
			return ""
		case t.Kind() == types.UnsafePointer:
			return (*value)(nil)
		}
		panic(fmt.Sprintf("zero for unsupported basic type %s", t))
	case *types.Pointer:
		return (*value)(nil)
	case *types.Array:
		a := make(array, t.Len())
		for i := range a {
			a[i] = w.zero(t.Elem())
		}
		return a
	case *types.Named, *types.Alias:
		return w.zero(t.Underlying())
	case *types.Interface:
		return iface{}
	case *types.Slice:
		return []value(nil)
	case *types.Struct:
		s := make(structure, t.NumFields())
		for i := range s {
			s[i] = w.zero(t.Field(i).Type())
		}
		return s
	case *types.Tuple:
		if t.Len() == 1 {
			return w.zero(t.At(0).Type())
		}
		s := make(tuple, t.Len())
		for i := range s {
			s[i] = w.zero(t.At(i).Type())
		}
		return s
	case *types.Chan:
		return (*channel)(nil)
	case *types.Map:
		return (*symMap)(nil)
	case *types.Signature:
		return (*ssa.Function)(nil)
	case *types.TypeParam:
		panic("zero of type parameter (need InstantiateGenerics)")
	}
	panic(fmt.Sprintf("zero: unexpected type %T %s", t, t))
}

// copyVal deep-copies aggregates (structs/arrays are values in Go).
func copyVal(v value) value {
	switch v := v.(type) {
	case structure:
		c := make(structure, len(v))
		for i, x := range v {
			c[i] = copyVal(x)
		}
		return c
	case array:
		c := make(array, len(v))
		for i, x := range v {
			c[i] = copyVal(x)
		}
		return c
	}
	return v
}

func load(addr *value) value { return copyVal(*addr) }

// store copies v into *addr; aggregates are copied element-wise so interior
// pointers stay valid.
func store(addr *value, v value) {
	switch rhs := v.(type) {
	case structure:
		lhs, ok := (*addr).(structure)
		if !ok || len(lhs) != len(rhs) {
			*addr = copyVal(v)
			return
		}
		for i := range lhs {
			store(&lhs[i], rhs[i])
		}
	case array:
		lhs, ok := (*addr).(array)
		if !ok || len(lhs) != len(rhs) {
			*addr = copyVal(v)
			return
		}
		for i := range lhs {
			store(&lhs[i], rhs[i])
		}
	default:
		*addr = v
	}
}

// eqv compares two values of the same static type; result is a bool term.
func (w *Worker) eqv(x, y value) T {
	tb := w.tb
	switch x := x.(type) {
	case T:
		return tb.Eq(x, y.(T))
	case string:
		return tb.Bool(x == y.(string))
	case *value:
		return tb.Bool(x == y.(*value))
	case *symMap:
		return tb.Bool(x == y.(*symMap))
	case *channel:
		return tb.Bool(x == y.(*channel))
	case structure:
		ys := y.(structure)
		r := tb.True
		for i := range x {
			r = tb.BAnd(r, w.eqv(x[i], ys[i]))
			if r.IsFalse() {
				return r
			}
		}
		return r
	case array:
		ys := y.(array)
		r := tb.True
		for i := range x {
			r = tb.BAnd(r, w.eqv(x[i], ys[i]))
			if r.IsFalse() {
				return r
			}
		}
		return r
	case iface:
		yi := y.(iface)
		if x.t == nil || yi.t == nil {
			return tb.Bool(x.t == nil && yi.t == nil)
		}
		if !types.Identical(x.t, yi.t) {
			return tb.False
		}
		if !types.Comparable(x.t) {
			w.throwRuntime("comparing uncomparable type " + x.t.String())
		}
		return w.eqv(x.v, yi.v)
	case *ssa.Function:
		// only comparison with nil is legal
		switch y := y.(type) {
		case *ssa.Function:
			return tb.Bool(x == y)
		case *closure:
			return tb.Bool(false && y == nil)
		}
		return tb.False
	case *closure:
		switch y := y.(type) {
		case *closure:
			return tb.Bool(x == y)
		case *ssa.Function:
			return tb.Bool(x == nil && y == nil)
		}
		return tb.False
	case []value:
		// slice compared with nil
		ys := y.([]value)
		return tb.Bool(x == nil && ys == nil)
	case nil:
		return tb.Bool(y == nil)
	}
	panic(fmt.Sprintf("eqv: unhandled %T", x))
}

// keyString canonicalises a concrete value for use as a map key.
// ok=false if the value contains symbolic scalars.
func keyString(v value, sb *strings.Builder) bool {
	switch v := v.(type) {
	case T:
		if !v.IsConst() {
			return false
		}
		fmt.Fprintf(sb, "%d:%x,", v.W, v.V)
	case string:
		fmt.Fprintf(sb, "s%d:%s,", len(v), v)
	case *value:
		fmt.Fprintf(sb, "p%p,", v)
	case *symMap:
		fmt.Fprintf(sb, "m%p,", v)
	case *channel:
		fmt.Fprintf(sb, "c%p,", v)
	case structure:
		sb.WriteByte('{')
		for _, x := range v {
			if !keyString(x, sb) {
				return false
			}
		}
		sb.WriteByte('}')
	case array:
		sb.WriteByte('[')
		for _, x := range v {
			if !keyString(x, sb) {
				return false
			}
		}
		sb.WriteByte(']')
	case iface:
		if v.t == nil {
			sb.WriteString("nil,")
			return true
		}
		sb.WriteString("i(")
		sb.WriteString(v.t.String())
		sb.WriteString(")")
		return keyString(v.v, sb)
	default:
		panic(fmt.Sprintf("keyString: unhandled %T", v))
	}
	return true
}

// toString renders a value for diagnostics.
func toString(v value) string {
	switch v := v.(type) {
	case T:
		return v.String()
	case string:
		return fmt.Sprintf("%q", v)
	case structure:
		var parts []string
		for _, x := range v {
			parts = append(parts, toString(x))
		}
		return "{" + strings.Join(parts, " ") + "}"
	case array:
		var parts []string
		for _, x := range v {
			parts = append(parts, toString(x))
		}
		return "[" + strings.Join(parts, " ") + "]"
	case []value:
		if len(v) > 16 {
			return fmt.Sprintf("slice(len=%d)", len(v))
		}
		var parts []string
		for _, x := range v {
			parts = append(parts, toString(x))
		}
		return "[]{" + strings.Join(parts, " ") + "}"
	case iface:
		if v.t == nil {
			return "nil"
		}
		return "(" + v.t.String() + ")" + toString(v.v)
	case *value:
		if v == nil {
			return "nil"
		}
		return fmt.Sprintf("&%p", v)
	case tuple:
		var parts []string
		for _, x := range v {
			parts = append(parts, toString(x))
		}
		return "(" + strings.Join(parts, ", ") + ")"
	case *ssa.Function:
		if v == nil {
			return "nil"
		}
		return v.String()
	case *closure:
		return "closure " + v.Fn.String()
	}
	return fmt.Sprintf("%T", v)
}
