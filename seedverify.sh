#!/bin/bash
# usage: seedverify.sh <ID> : confirm a seeded change in its scratch worktree /tmp/wt-<ID> using /tmp/seed-<ID>/
ID=$1; WT=/tmp/wt-$ID; SD=/tmp/seed-$ID
. /verif/env.sh
cd $WT || exit 2
git checkout -q -- . ; rm -f zz_seed_demo_test.go
cp $SD/zz_seed_demo_test.go . || exit 2
echo "== demo WITHOUT patch (expect PASS)"
go test -vet=off -count=1 -run '^TestSeedDemo$' . 2>&1 | tail -3
git apply $SD/patch.diff || { echo "PATCH DOES NOT APPLY"; exit 2; }
echo "== build WITH patch"; go build ./... && echo build-ok
echo "== demo WITH patch (expect FAIL)"
go test -vet=off -count=1 -run '^TestSeedDemo$' . 2>&1 | tail -4
echo "== full suite WITH patch, demo skipped (expect ok)"
go test -vet=off -count=1 -timeout 25m -skip '^TestSeedDemo$' ./... 2>&1 | grep -E '^(--- FAIL|FAIL|ok|panic|\?)' | tail -8
