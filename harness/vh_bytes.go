//go:build verif

package atree

import (
	"fmt"

	"github.com/fxamacker/cbor/v2"
)

// Byte-level doubles: elements with a real CBOR encoding, so that the real
// slab encoders/decoders AND the real fxamacker/cbor stream encoder/decoder
// are executed symbolically (no CBOR model).

const vhTagSome = 200

// vU64 encodes as a CBOR unsigned integer: its size is 1, 2, 3, 5 or 9 bytes
// depending on the (symbolic) value.
type vU64 uint64

var _ Value = vU64(0)
var _ Storable = vU64(0)

func (v vU64) Storable(SlabStorage, Address, uint32) (Storable, error) { return v, nil }
func (v vU64) Encode(enc *Encoder) error                             { return enc.CBOR.EncodeUint64(uint64(v)) }
func (v vU64) ByteSize() uint32                                      { return GetUintCBORSize(uint64(v)) }
func (v vU64) StoredValue(SlabStorage) (Value, error)                { return v, nil }
func (v vU64) ChildStorables() []Storable                            { return nil }
func (v vU64) CanCopyNonRefSimple() bool                             { return true }
func (v vU64) CopyNonRefSimple() (Storable, error)                   { return v, nil }

// vU64 is also a comparable storable, so it can be a key of compact
// (same-typed composite) inlined maps.
var _ ComparableStorable = vU64(0)

func (v vU64) Equal(o Storable) bool { x, ok := o.(vU64); return ok && x == v }
func (v vU64) Less(o Storable) bool  { x, ok := o.(vU64); return ok && v < x }
func (v vU64) ID() string            { return vhItoa(uint64(v)) }

func vhItoa(n uint64) string {
	if n == 0 {
		return "0"
	}
	var b []byte
	for n > 0 {
		b = append([]byte{byte('0' + n%10)}, b...)
		n /= 10
	}
	return string(b)
}

// vCompositeTypeInfo: composite type information (inlined maps of this type
// with identical key sets share the compact encoding). Encoded as id+1000.
type vCompositeTypeInfo struct{ id uint64 }

func (t vCompositeTypeInfo) Encode(enc *cbor.StreamEncoder) error { return enc.EncodeUint64(t.id + 1000) }
func (t vCompositeTypeInfo) IsComposite() bool                    { return true }
func (t vCompositeTypeInfo) Copy() TypeInfo                       { return t }

// vBlob encodes as a CBOR byte string of n zero bytes (large values).
type vBlob struct{ n int }

var _ Value = vBlob{}
var _ Storable = vBlob{}

func (v vBlob) Storable(storage SlabStorage, addr Address, maxInline uint32) (Storable, error) {
	if v.ByteSize() <= maxInline {
		return v, nil
	}
	return NewStorableSlab(storage, addr, v, v.ByteSize())
}
func (v vBlob) Encode(enc *Encoder) error              { return enc.CBOR.EncodeBytes(make([]byte, v.n)) }
func (v vBlob) ByteSize() uint32                       { return GetUintCBORSize(uint64(v.n)) + uint32(v.n) }
func (v vBlob) StoredValue(SlabStorage) (Value, error) { return v, nil }
func (v vBlob) ChildStorables() []Storable             { return nil }
func (v vBlob) CanCopyNonRefSimple() bool              { return true }
func (v vBlob) CopyNonRefSimple() (Storable, error)    { return v, nil }

// vSome: wrapper encoded as tag 200 + inner.
type vSomeStorable struct{ inner Storable }

var _ WrapperStorable = vSomeStorable{}
var _ ContainerStorable = vSomeStorable{}

func (w vSomeStorable) Encode(enc *Encoder) error {
	if err := enc.CBOR.EncodeRawBytes([]byte{0xd8, vhTagSome}); err != nil {
		return err
	}
	return w.inner.Encode(enc)
}
func (w vSomeStorable) ByteSize() uint32 { return 2 + w.inner.ByteSize() }
func (w vSomeStorable) StoredValue(s SlabStorage) (Value, error) {
	v, err := w.inner.StoredValue(s)
	if err != nil {
		return nil, err
	}
	return vSomeValue{inner: v}, nil
}
func (w vSomeStorable) ChildStorables() []Storable            { return []Storable{w.inner} }
func (w vSomeStorable) CanCopyNonRefSimple() bool             { return w.inner.CanCopyNonRefSimple() }
func (w vSomeStorable) UnwrapAtreeStorable() Storable         { return w.inner }
func (w vSomeStorable) WrapAtreeStorable(s Storable) Storable { return vSomeStorable{inner: s} }
func (w vSomeStorable) HasPointer() bool                      { return hasPointer(w.inner) }
func (w vSomeStorable) CopyNonRefSimple() (Storable, error) {
	c, err := w.inner.CopyNonRefSimple()
	if err != nil {
		return nil, err
	}
	return vSomeStorable{inner: c}, nil
}

type vSomeValue struct{ inner Value }

var _ WrapperValue = vSomeValue{}

func (w vSomeValue) UnwrapAtreeValue() (Value, uint32) { return w.inner, 2 }
func (w vSomeValue) Storable(storage SlabStorage, addr Address, maxInline uint32) (Storable, error) {
	if maxInline < 2 {
		maxInline = 0
	} else {
		maxInline -= 2
	}
	s, err := w.inner.Storable(storage, addr, maxInline)
	if err != nil {
		return nil, err
	}
	return vSomeStorable{inner: s}, nil
}

// vhDecodeStorableB: StorableDecoder for the byte-level doubles.
func vhDecodeStorableB(dec *cbor.StreamDecoder, id SlabID, inlinedExtraData []ExtraData) (Storable, error) {
	t, err := dec.NextType()
	if err != nil {
		return nil, err
	}
	switch t {
	case cbor.UintType:
		v, err := dec.DecodeUint64()
		if err != nil {
			return nil, err
		}
		return vU64(v), nil
	case cbor.ByteStringType:
		b, err := dec.DecodeBytes()
		if err != nil {
			return nil, err
		}
		return vBlob{n: len(b)}, nil
	case cbor.TagType:
		tag, err := dec.DecodeTagNumber()
		if err != nil {
			return nil, err
		}
		switch tag {
		case CBORTagInlinedArray:
			return DecodeInlinedArrayStorable(dec, vhDecodeStorableB, id, inlinedExtraData)
		case CBORTagInlinedMap:
			return DecodeInlinedMapStorable(dec, vhDecodeStorableB, id, inlinedExtraData)
		case CBORTagInlinedCompactMap:
			return DecodeInlinedCompactMapStorable(dec, vhDecodeStorableB, id, inlinedExtraData)
		case CBORTagSlabID:
			return DecodeSlabIDStorable(dec)
		case vhTagSome:
			inner, err := vhDecodeStorableB(dec, id, inlinedExtraData)
			if err != nil {
				return nil, err
			}
			return vSomeStorable{inner: inner}, nil
		}
		return nil, fmt.Errorf("unexpected tag %d", tag)
	}
	return nil, fmt.Errorf("unexpected CBOR type %v", t)
}

func vhStorableEqual(a, b Storable) bool {
	switch x := a.(type) {
	case vU64:
		y, ok := b.(vU64)
		return ok && x == y
	case vBlob:
		y, ok := b.(vBlob)
		return ok && x.n == y.n
	case SlabIDStorable:
		y, ok := b.(SlabIDStorable)
		return ok && x == y
	case vSomeStorable:
		y, ok := b.(vSomeStorable)
		return ok && vhStorableEqual(x.inner, y.inner)
	}
	return false
}

func vhRealEncMode() cbor.EncMode {
	em, err := cbor.EncOptions{}.EncMode()
	if err != nil {
		panic(err)
	}
	return em
}

func vhRealDecMode() cbor.DecMode {
	dm, err := cbor.DecOptions{}.DecMode()
	if err != nil {
		panic(err)
	}
	return dm
}

func vhNewByteStorage() *BasicSlabStorage {
	return NewBasicSlabStorage(vhRealEncMode(), vhRealDecMode(), vhDecodeStorableB, vhDecodeTypeInfo)
}

// vBKey: map key for the byte-level harnesses: stored as a CBOR unsigned
// integer (vU64), hashed to a symbolic digest vector.
type vBKey struct {
	val uint64
	d   [4]uint64
}

var _ Value = vBKey{}

func (k vBKey) Storable(SlabStorage, Address, uint32) (Storable, error) { return vU64(k.val), nil }

func vhCompareB(_ SlabStorage, v Value, s Storable) (bool, error) {
	k, ok := v.(vBKey)
	if !ok {
		return false, fmt.Errorf("unexpected key value %T", v)
	}
	u, ok := s.(vU64)
	if !ok {
		return false, fmt.Errorf("unexpected key storable %T", s)
	}
	return uint64(u) == k.val, nil
}

// vBlobKey: a map key that is too large to inline (stored as a reference to a
// storable slab holding a CBOR byte string of n bytes).
type vBlobKey struct {
	n int
	d [4]uint64
}

var _ Value = vBlobKey{}

func (k vBlobKey) Storable(storage SlabStorage, addr Address, maxInline uint32) (Storable, error) {
	return vBlob{n: k.n}.Storable(storage, addr, maxInline)
}

// vhCompareBK compares byte-level keys of either kind with their stored form.
func vhCompareBK(storage SlabStorage, v Value, s Storable) (bool, error) {
	if id, ok := s.(SlabIDStorable); ok {
		sv, err := id.StoredValue(storage)
		if err != nil {
			return false, err
		}
		st, ok := sv.(Storable)
		if !ok {
			return false, fmt.Errorf("unexpected stored key %T", sv)
		}
		s = st
	}
	switch k := v.(type) {
	case vBKey:
		u, ok := s.(vU64)
		return ok && uint64(u) == k.val, nil
	case vBlobKey:
		bl, ok := s.(vBlob)
		return ok && bl.n == k.n, nil
	case vU64: // the stored form of a key (mutable iteration looks keys up by their stored value)
		u, ok := s.(vU64)
		return ok && u == k, nil
	}
	return false, fmt.Errorf("unexpected key value %T", v)
}
