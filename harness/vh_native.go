//go:build verif

package atree

// Native implementations of the harness primitives. Under the symbolic engine
// (vsym) every function in this file whose name starts with "vh" is
// intercepted by name and these bodies are never executed; natively they read
// a replay vector produced by the engine so that a solver model can be run
// against the real build.

import (
	"fmt"
	"runtime"
	"strings"
)

type vhEntry struct {
	Name string `json:"n"`
	Val  uint64 `json:"v"`
}

type vhRun struct {
	vec      []vhEntry
	pos      int
	symCount map[string]int
	params   map[string]int
	observed []vhObs
	reached  []string
	failed   []string // assertion labels that failed
	bounds   []string

	allocOn   bool
	allocBase uint64
}

type vhObs struct {
	Label string `json:"label"`
	Val   uint64 `json:"val"`
}

var vhCur *vhRun

type vhAssumeFailed struct{}
type vhVectorMismatch struct{ msg string }

func vhSanitize(s string) string {
	var sb strings.Builder
	for _, c := range s {
		if (c >= 'a' && c <= 'z') || (c >= 'A' && c <= 'Z') || (c >= '0' && c <= '9') || c == '_' || c == '.' {
			sb.WriteRune(c)
		} else {
			sb.WriteByte('_')
		}
	}
	return sb.String()
}

func vhNext(base string) uint64 {
	r := vhCur
	k := r.symCount[base]
	r.symCount[base] = k + 1
	name := "v_" + vhSanitize(base)
	if k > 0 {
		name = fmt.Sprintf("v_%s_%d", vhSanitize(base), k)
	}
	if r.pos >= len(r.vec) {
		panic(vhVectorMismatch{fmt.Sprintf("vector exhausted at %s", name)})
	}
	e := r.vec[r.pos]
	r.pos++
	if e.Name != name {
		panic(vhVectorMismatch{fmt.Sprintf("vector entry %d is %s, harness asked for %s", r.pos-1, e.Name, name)})
	}
	return e.Val
}

func vhU8(name string) uint8   { return uint8(vhNext(name)) }
func vhU16(name string) uint16 { return uint16(vhNext(name)) }
func vhU32(name string) uint32 { return uint32(vhNext(name)) }
func vhU64(name string) uint64 { return vhNext(name) }

// vhRange returns a fresh value in [lo,hi] (inclusive); the range is part of
// the stated bound of the harness.
func vhRange(name string, lo, hi uint64) uint64 {
	v := vhNext(name)
	if v < lo || v > hi {
		panic(vhVectorMismatch{fmt.Sprintf("%s=%d outside [%d,%d]", name, v, lo, hi)})
	}
	return v
}

func vhRange32(name string, lo, hi uint32) uint32 {
	return uint32(vhRange(name, uint64(lo), uint64(hi)))
}

func vhBool(name string) bool { return vhNext(name) != 0 }

// vhChoose forks over 0..n-1 (operation / shape selection).
func vhChoose(name string, n int) int {
	if n <= 0 {
		panic(vhAssumeFailed{})
	}
	v := vhNext(name)
	if v >= uint64(n) {
		panic(vhVectorMismatch{fmt.Sprintf("choice %s=%d >= %d", name, v, n)})
	}
	return int(v)
}

func vhAssume(c bool) {
	if !c {
		panic(vhAssumeFailed{})
	}
}

func vhAssert(c bool, label string) {
	if !c {
		vhCur.failed = append(vhCur.failed, label)
	}
}

func vhFail(label string) { vhCur.failed = append(vhCur.failed, label) }

func vhAll(cs ...bool) bool {
	for _, c := range cs {
		if !c {
			return false
		}
	}
	return true
}

func vhAny(cs ...bool) bool {
	for _, c := range cs {
		if c {
			return true
		}
	}
	return false
}

func vhImplies(a, b bool) bool { return !a || b }

func vhIte(c bool, a, b uint64) uint64 {
	if c {
		return a
	}
	return b
}

func vhIte32(c bool, a, b uint32) uint32 {
	if c {
		return a
	}
	return b
}

func vhReach(label string) { vhCur.reached = append(vhCur.reached, label) }

func vhObserve(label string, v uint64) {
	vhCur.observed = append(vhCur.observed, vhObs{label, v})
}

func vhBound(c bool, label string) {
	if !c {
		vhCur.bounds = append(vhCur.bounds, label)
		panic(vhAssumeFailed{})
	}
}

func vhParam(name string, def int) int {
	if v, ok := vhCur.params[name]; ok {
		return v
	}
	return def
}

func vhConcretize(v uint64, max int) uint64 {
	if v > uint64(max) {
		panic(vhAssumeFailed{})
	}
	return v
}

// vhSymbolic is true under the engine and false in the native build.
func vhSymbolic() bool { return false }

func vhLog(args ...any) {}

// vhSetAllocLimit declares, for the engine, the largest make() length the
// code under test may request from here on (0 = no limit). Natively it starts
// the allocation meter: the bytes allocated from here to the end of the case
// are reported with the outcome, so that an "allocation out of proportion"
// counterexample is confirmed by a measurement on the real build.
func vhSetAllocLimit(n int) {
	if vhCur != nil && !vhCur.allocOn {
		var ms runtime.MemStats
		runtime.ReadMemStats(&ms)
		vhCur.allocOn = true
		vhCur.allocBase = ms.TotalAlloc
	}
}

func vhAllocatedSince() uint64 {
	if vhCur == nil || !vhCur.allocOn {
		return 0
	}
	var ms runtime.MemStats
	runtime.ReadMemStats(&ms)
	return ms.TotalAlloc - vhCur.allocBase
}

// vhDebug: development aid (the engine prints a description of the value).
func vhDebug(label string, v any) {}

// vhRequire: a requirement the harness's own model of the code rests on. Under
// the engine its failure is reported as broken machinery (exit 2), never as a
// violation; natively it is a no-op.
func vhRequire(c bool, label string) {}
