//go:build verif

package atree

// C10 with a child MAP that holds real collision groups: nested maps are
// always read back with the library's default digester, so collisions inside
// them are real ones -- here forced by a hash-input provider that looks at the
// low 8 bits of the key only (keys 1, 257, 513 collide on every level; 2 does
// not). Value sizes are symbolic. A history of inserts, overwrites and
// removals through the child's handle takes the child across the inline limit
// in BOTH directions without any removal: a group that outgrows the element
// limit moves to an external slab, which makes the child SMALLER on an insert.
// After every operation the parent is valid -- in particular the child is
// inline exactly when it fits --, the content read through the parent is the
// model, and storage holds exactly the reachable slabs.
//
//vh:prop C10 C12 C09 C06
//vh:param ops 3 4
func VH_C10_ChildMapWithRealCollisions() {
	vhSetThreshold(256)
	storage := vhNewBasicStorage()
	addr := vhAddr(1)
	mapParent := vhChoose("parentkind", 2) == 1
	var pa *Array
	var pm *OrderedMap
	child, _ := NewMap(storage, addr, NewDefaultDigesterBuilder(), vTypeInfo{id: 43})
	childVID := child.ValueID()
	if mapParent {
		pm, _ = NewMap(storage, addr, NewDefaultDigesterBuilder(), vTypeInfo{id: 42})
		_, _ = pm.Set(vhCompareBK, vhHipLow, vBKey{val: 50}, vElem{tag: 9, size: vhRange32("sibsz", 1, 60)})
		_, err := pm.Set(vhCompareBK, vhHipLow, vBKey{val: 51}, child)
		vhAssert(err == nil, "setup: child into the parent map")
	} else {
		pa, _ = NewArray(storage, addr, vTypeInfo{id: 42})
		_ = pa.Append(vElem{tag: 9, size: vhRange32("sibsz", 1, 60)})
		vhAssert(pa.Append(child) == nil, "setup: child into the parent array")
	}
	throughParent := func() (*OrderedMap, bool) {
		var v Value
		var err error
		if mapParent {
			v, err = pm.Get(vhCompareBK, vhHipLow, vBKey{val: 51})
		} else {
			v, err = pa.Get(1)
		}
		vhAssert(err == nil, "child readable through the parent")
		if err != nil {
			return nil, false
		}
		c, ok := v.(*OrderedMap)
		vhAssert(ok, "child is a map")
		return c, ok
	}
	h := child
	if vhChoose("handle", 2) == 1 {
		c, ok := throughParent()
		if !ok {
			return
		}
		h = c
	}
	// 1, 257, 513 collide on every level; 2, 3, 4 do not (with values near the
	// element limit three or four of them make the CHILD span several slabs, so
	// that reading it through the parent goes through an index root)
	keys := []uint64{1, 257, 513, 2, 3, 4}
	present := map[uint64]uint64{}
	tag := uint64(100)
	nops := vhParam("ops", 3)
	wasStandalone := false
	for op := 0; op < nops; op++ {
		k := keys[vhChoose("key", len(keys))]
		key := vBKey{val: k}
		_, isPresent := present[k]
		if vhChoose("remove", 2) == 1 {
			if !isPresent {
				return
			}
			ks, vs, err := h.Remove(vhCompareBK, vhHipLow, key)
			vhAssert(err == nil, "child remove")
			if err != nil {
				return
			}
			vhDispose(storage, ks)
			vhDispose(storage, vs)
			delete(present, k)
		} else {
			old, err := h.Set(vhCompareBK, vhHipLow, key, vElem{tag: tag, size: vhRange32("vsz", 1, 120)})
			vhAssert(err == nil, "child set")
			if err != nil {
				return
			}
			vhAssert((old != nil) == isPresent, "child set: previous value exactly for a present key")
			if old != nil {
				vhDispose(storage, old)
			}
			present[k] = tag
			tag++
		}
		// the parent is valid: sizes, and the child inline exactly when it fits
		if mapParent {
			vhAssert(VerifyMap(pm, addr, vTypeInfo{id: 42}, vhTic, vhHipLow, true) == nil, "after op: parent valid (child inline exactly when it fits)")
		} else {
			vhAssert(VerifyArray(pa, addr, vTypeInfo{id: 42}, vhTic, vhHipLow, true) == nil, "after op: parent valid (child inline exactly when it fits)")
		}
		c, ok := throughParent()
		if !ok {
			return
		}
		vhAssert(c.ValueID() == childVID, "child value id stable")
		vhAssert(c.Count() == uint64(len(present)), "child count through the parent")
		for _, kk := range keys {
			v, err := c.Get(vhCompareBK, vhHipLow, vBKey{val: kk})
			if want, ok := present[kk]; ok {
				vhAssert(err == nil && vhTagOf(v) == want, "child content through the parent")
			} else {
				vhAssert(vhIsKeyNotFound(err), "absent key through the parent")
			}
		}
		if _, multi := h.root.(*MapMetaDataSlab); multi {
			vhReach("witness: the child map spans several slabs")
		}
		if !h.Inlined() {
			wasStandalone = true
		} else if wasStandalone {
			vhReach("witness: the child became standalone and was inlined again")
		}
		var rootID SlabID
		reach := 0
		if mapParent {
			rootID = pm.SlabID()
			reach = vhMapSlabCount(storage, rootID)
		} else {
			rootID = pa.SlabID()
			reach = vhArraySlabCount(storage, rootID)
		}
		vhAssert(vhStorageSlabCount(storage) == reach, "no leaked or dangling slabs")
	}
	vhReach("child-collisions-done")
}
