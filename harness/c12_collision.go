//go:build verif

package atree

import "errors"

// C12: maps built through the public API under arbitrary digest assignments
// (all levels symbolic), with the collision limit symbolic.

func vhIsCollisionLimit(err error) bool {
	var cle *CollisionLimitError
	return errors.As(err, &cle)
}

// vhLevel1Entries: number of distinct level-1 digests among model keys whose
// level-0 digest equals d0 (what the limit counts). In list mode (levels==1)
// every key is its own entry.
func vhLevel1Entries(model []vhKV, d0 uint64, levels uint) int {
	var seen []uint64
	n := 0
	for _, kv := range model {
		if kv.key.d[0] != d0 {
			continue
		}
		if levels == 1 {
			n++
			continue
		}
		dup := false
		for _, s := range seen {
			if s == kv.key.d[1] {
				dup = true
			}
		}
		if !dup {
			seen = append(seen, kv.key.d[1])
			n++
		}
	}
	return n
}

//vh:prop C12
//vh:param keys 2 3
//vh:param extra 2 1
func VH_C12_CollisionHistory() {
	vhSetThreshold(256)
	nkeys := vhParam("keys", 3)
	extra := vhParam("extra", 1)
	levels := uint(1 << uint(vhChoose("levels", 3))) // 1, 2, 4
	limit := vhRange32("limit", 0, 255)
	maxCollisionLimitPerDigest = limit
	storage := vhNewBasicStorage()
	addr := vhAddr(1)
	b := &vDigesterBuilder{levels: levels}
	m, err := NewMap(storage, addr, b, vTypeInfo{id: 42})
	vhAssert(err == nil, "new map")
	if err != nil {
		return
	}
	var model []vhKV
	nextID := uint64(1)
	insert := func() bool {
		k := vhNewKey(nextID)
		nextID++
		vs := vhRange32("vsz", 1, 300)
		tag := 1000 + k.id
		entries := vhLevel1Entries(model, k.d[0], levels)
		old, err := m.Set(vhCompare, vhHip, k, vElem{tag: tag, size: vs})
		if entries >= 1 && uint32(entries-1) >= limit {
			vhAssert(err != nil, "insert at the limit: refused")
			vhAssert(vhIsCollisionLimit(err), "insert at the limit: collision-limit error")
			return false
		}
		vhAssert(err == nil, "insert below the limit: accepted")
		if err != nil {
			return false
		}
		vhAssert(old == nil, "insert: no previous value")
		model = append(model, vhKV{key: k, val: tag})
		return true
	}
	for i := 0; i < nkeys; i++ {
		ok := insert()
		vhCheckMap(m, addr, model, "after insert")
		if !ok {
			vhReach("refused")
		}
	}
	for e := 0; e < extra; e++ {
		n := len(model)
		op := vhChoose("op", 3)
		switch op {
		case 0: // update existing: always accepted
			if n == 0 {
				return
			}
			i := vhChoose("which", n)
			old, err := m.Set(vhCompare, vhHip, model[i].key, vElem{tag: 7777, size: vhRange32("vsz", 1, 300)})
			vhAssert(err == nil, "update: always accepted")
			if err != nil {
				return
			}
			vhAssert(old != nil, "update: previous value returned")
			if old != nil {
				ov, _ := old.StoredValue(storage)
				vhAssert(vhTagOf(ov) == model[i].val, "update: previous value")
				vhDispose(storage, old)
			}
			model[i].val = 7777
		case 1: // remove existing
			if n == 0 {
				return
			}
			i := vhChoose("which", n)
			ks, vs, err := m.Remove(vhCompare, vhHip, model[i].key)
			vhAssert(err == nil, "remove: present key")
			if err != nil {
				return
			}
			kid, _ := vhKeyID(ks, storage)
			vhAssert(kid == model[i].key.id, "remove: key")
			rv, _ := vs.StoredValue(storage)
			vhAssert(vhTagOf(rv) == model[i].val, "remove: value")
			vhDispose(storage, ks)
			vhDispose(storage, vs)
			model = append(append([]vhKV{}, model[:i]...), model[i+1:]...)
		case 2: // lookup of an absent key with arbitrary digests
			k := vhNewKey(9999)
			_, err := m.Get(vhCompare, vhHip, k)
			vhAssert(vhIsKeyNotFound(err), "absent key: key-not-found")
		}
		vhCheckMap(m, addr, model, "after op")
	}
	vhAssert(vhStorageSlabCount(storage) == vhMapSlabCount(storage, m.SlabID()), "no leaked or dangling slabs")
	vhReach("history-done")
}
