//go:build verif

package atree

// C13 on three-level trees: every enumeration flavour crosses the boundary
// between two index slabs below the root (the two-level harnesses never leave
// one index slab). Leaves next to a chosen boundary leaf carry symbolic sizes
// and digests; an overwrite of symbolic size under the cursor may restructure
// the tree (leaf split -> index slab split, or shrink -> merge).

//vh:prop C13
//vh:param shapes 2 4
func VH_C13_DeepMapIterators() {
	vhSetThreshold(256)
	storage := &vLogStorage{BasicSlabStorage: vhNewBasicStorage()}
	addr := vhAddr(1)
	b := &vDigesterBuilder{levels: 4}
	shapes := [][]int{{7, 7}, {20, 7}, {7, 7, 7}, {20, 20}}
	kids := shapes[vhChoose("shape", vhParam("shapes", 2))]
	perLeaf := 3
	// focus: the last leaf of the first index slab (the cursor crosses to the next index slab right after it)
	focus := kids[0] - 1 + vhChoose("focusoff", 2)
	m, model := vhBuildMapDeep(storage, addr, b, kids, perLeaf, focus)
	n := len(model)
	wantK := make([]uint64, n)
	wantV := make([]uint64, n)
	for i, kv := range model {
		wantK[i], wantV[i] = kv.key.id, kv.val
	}
	switch vhChoose("flavour", 7) {
	case 0:
		k, v := vhCollectMap("mutable", func(fn MapEntryIterationFunc) error { return m.Iterate(vhCompare, vhHip, fn) })
		vhSameSeq(k, wantK, "mutable keys")
		vhSameSeq(v, wantV, "mutable values")
	case 1:
		k, v := vhCollectMap("readonly", m.IterateReadOnly)
		vhSameSeq(k, wantK, "readonly keys")
		vhSameSeq(v, wantV, "readonly values")
	case 2:
		vhSameSeq(vhCollectMapElems("keys", func(fn MapElementIterationFunc) error { return m.IterateKeys(vhCompare, vhHip, fn) }, true), wantK, "keys-only")
	case 3:
		vhSameSeq(vhCollectMapElems("values", func(fn MapElementIterationFunc) error { return m.IterateValues(vhCompare, vhHip, fn) }, false), wantV, "values-only")
	case 4:
		vhSameSeq(vhCollectMapElems("ro keys", m.IterateReadOnlyKeys, true), wantK, "readonly keys-only")
		k, _ := vhCollectMap("loaded", m.IterateReadOnlyLoadedValues)
		vhSameSeq(k, wantK, "loaded values, everything loaded")
	case 5: // overwrite under the cursor, at an element of the boundary leaf
		var got []uint64
		i := 0
		at := focus*perLeaf + vhChoose("overwriteAt", perLeaf)
		err := m.Iterate(vhCompare, vhHip, func(k, v Value) (bool, error) {
			kk, _ := k.(vKey)
			got = append(got, kk.id)
			if i == at {
				old, err := m.Set(vhCompare, vhHip, kk, vElem{tag: 4242, size: vhRange32("newvsz", 1, 300)})
				vhAssert(err == nil, "overwrite during iteration")
				if err == nil && old != nil {
					vhDispose(storage, old)
				}
			}
			i++
			return true, nil
		})
		vhAssert(err == nil, "mutating iteration: no error")
		vhSameSeq(got, wantK, "mutating iteration yields each key once")
		model[at].val = 4242
		vhCheckMap(m, addr, model, "after mutating iteration")
	case 6: // bulk pop: reverse order, everything released
		var got []uint64
		popSnap := vhSnapshotAll(storage)
		err := m.PopIterate(func(ks, vs Storable) {
			id, _ := vhKeyID(ks, storage)
			got = append(got, id)
			vhDispose(storage, ks)
			vhDispose(storage, vs)
		})
		vhAssert(err == nil, "pop: no error")
		vhCheckDirtyMarks(storage, popSnap, "pop: dirty marks")
		rev := make([]uint64, n)
		for i := range wantK {
			rev[n-1-i] = wantK[i]
		}
		vhSameSeq(got, rev, "pop order is reverse")
		vhCheckMap(m, addr, nil, "after pop")
		vhAssert(vhStorageSlabCount(storage.BasicSlabStorage) == 1, "emptying releases every auxiliary slab")
	}
	vhReach("deep-iter-done")
}

//vh:prop C13
//vh:param shapes 2 4
func VH_C13_DeepArrayIterators() {
	vhSetThreshold(256)
	storage := &vLogStorage{BasicSlabStorage: vhNewBasicStorage()}
	addr := vhAddr(1)
	shapes := [][]int{{9, 9}, {26, 9}, {9, 9, 9}, {26, 26}}
	kids := shapes[vhChoose("shape", vhParam("shapes", 2))]
	perLeaf := 3
	focus := kids[0] - 1 + vhChoose("focusoff", 2)
	a, model := vhBuildArrayDeep(storage, addr, kids, perLeaf, focus)
	n := len(model)
	collect := func(what string, run func(fn ArrayIterationFunc) error) []uint64 {
		var got []uint64
		err := run(func(v Value) (bool, error) {
			got = append(got, vhTagOf(v))
			return true, nil
		})
		vhAssert(err == nil, what+": no error")
		return got
	}
	switch vhChoose("flavour", 6) {
	case 0:
		vhSameSeq(collect("mutable", a.Iterate), model, "mutable")
	case 1:
		vhSameSeq(collect("readonly", a.IterateReadOnly), model, "readonly")
	case 2:
		vhSameSeq(collect("loaded", a.IterateReadOnlyLoadedValues), model, "loaded values, everything loaded")
	case 3: // a range straddling the index-slab boundary
		lo := focus*perLeaf + vhChoose("lo", perLeaf)
		hi := (focus+1)*perLeaf + vhChoose("hi", perLeaf+1)
		if vhChoose("ro", 2) == 1 {
			vhSameSeq(collect("ro range", func(fn ArrayIterationFunc) error { return a.IterateReadOnlyRange(uint64(lo), uint64(hi), fn) }), model[lo:hi], "readonly range")
		} else {
			vhSameSeq(collect("range", func(fn ArrayIterationFunc) error { return a.IterateRange(uint64(lo), uint64(hi), fn) }), model[lo:hi], "mutable range")
		}
	case 4: // overwrite under the cursor
		var got []uint64
		i := 0
		at := focus*perLeaf + vhChoose("overwriteAt", perLeaf)
		err := a.Iterate(func(v Value) (bool, error) {
			got = append(got, vhTagOf(v))
			if i == at {
				old, err := a.Set(uint64(i), vElem{tag: 4242, size: vhRange32("newsz", 1, 300)})
				vhAssert(err == nil, "overwrite during iteration")
				if err == nil {
					vhDispose(storage, old)
				}
			}
			i++
			return true, nil
		})
		vhAssert(err == nil, "mutating iteration: no error")
		vhSameSeq(got, model, "mutating iteration yields each element once")
		model[at] = 4242
		vhCheckArray(a, addr, model, "after mutating iteration")
	case 5: // bulk pop
		var got []uint64
		popSnap := vhSnapshotAll(storage)
		err := a.PopIterate(func(s Storable) {
			v, _ := s.StoredValue(storage)
			got = append(got, vhTagOf(v))
			vhDispose(storage, s)
		})
		vhAssert(err == nil, "pop: no error")
		vhCheckDirtyMarks(storage, popSnap, "pop: dirty marks")
		rev := make([]uint64, n)
		for i := range model {
			rev[n-1-i] = model[i]
		}
		vhSameSeq(got, rev, "pop order is reverse")
		vhCheckArray(a, addr, nil, "after pop")
		vhAssert(vhStorageSlabCount(storage.BasicSlabStorage) == 1, "emptying releases every auxiliary slab")
	}
	vhReach("deep-iter-done")
}

// C13 on maps WITH collision groups (inline, external, nested two levels deep,
// last-level list of fully colliding keys), the group's leaf being the root or
// a non-root leaf under an index root: every enumeration flavour yields the
// keys in ascending digest-sequence order (fully colliding keys in insertion
// order), the mutable iterator's next-key hand-off crosses group boundaries
// without skipping or repeating, an overwrite of symbolic size at any position
// is supported, and bulk pop yields the reverse order and releases the
// external group slab.
//
//vh:prop C13 C12 C09
//vh:param singles 2 3
//vh:param gsize 3 3
func VH_C13_GroupIterators() {
	vhSetThreshold(256)
	storage := &vLogStorage{BasicSlabStorage: vhNewBasicStorage()}
	addr := vhAddr(1)
	b := &vDigesterBuilder{levels: 4}
	if vhChoose("listmode", 2) == 1 {
		b.levels = 1
	}
	nsingle := vhChoose("nsingle", vhParam("singles", 2)+1)
	gsize := 2 + vhChoose("gsize", vhParam("gsize", 3)-1)
	gpos := vhChoose("gpos", nsingle+1)
	external := vhChoose("external", 2) == 1
	deep := b.levels > 1 && vhChoose("deep", 2) == 1
	vhGroupMulti = vhChoose("multi", 2) == 1
	m, model, gidx := vhBuildGroupMapDeep(storage, addr, b, nsingle, gsize, gpos, external, deep)
	vhGroupMulti = false
	n := len(model)
	wantK := make([]uint64, n)
	wantV := make([]uint64, n)
	for i, kv := range model {
		wantK[i], wantV[i] = kv.key.id, kv.val
	}
	switch vhChoose("flavour", 8) {
	case 7: // loaded values with the external group slab and/or leaves not loaded: in-order subsequence
		storage.unloaded = map[SlabID]bool{}
		skip := map[uint64]bool{} // key ids not expected
		if root, ok := m.root.(*MapMetaDataSlab); ok {
			pos := 0
			for _, h := range root.childrenHeaders {
				slab, _, _ := storage.BasicSlabStorage.Retrieve(h.slabID)
				cnt := vhKeysInElements(storage.BasicSlabStorage, slab.(*MapDataSlab).elements)
				if vhChoose("leafunloaded", 2) == 1 {
					storage.unloaded[h.slabID] = true
					for k := pos; k < pos+cnt; k++ {
						skip[wantK[k]] = true
					}
				}
				pos += cnt
			}
		}
		if external && vhChoose("groupunloaded", 2) == 1 {
			// find the external group slab: the only data slab flagged as a collision group
			for id, slab := range storage.Slabs {
				if ds, ok := slab.(*MapDataSlab); ok && ds.collisionGroup {
					storage.unloaded[id] = true
				}
			}
			for _, gi := range gidx {
				skip[model[gi].key.id] = true
			}
		}
		var wk []uint64
		for _, id := range wantK {
			if !skip[id] {
				wk = append(wk, id)
			}
		}
		k, _ := vhCollectMap("loaded", m.IterateReadOnlyLoadedValues)
		vhSameSeq(k, wk, "loaded values: in-order subsequence of the loaded part")

	case 0:
		k, v := vhCollectMap("mutable", func(fn MapEntryIterationFunc) error { return m.Iterate(vhCompare, vhHip, fn) })
		vhSameSeq(k, wantK, "mutable keys")
		vhSameSeq(v, wantV, "mutable values")
	case 1:
		k, v := vhCollectMap("readonly", m.IterateReadOnly)
		vhSameSeq(k, wantK, "readonly keys")
		vhSameSeq(v, wantV, "readonly values")
	case 2:
		vhSameSeq(vhCollectMapElems("keys", func(fn MapElementIterationFunc) error { return m.IterateKeys(vhCompare, vhHip, fn) }, true), wantK, "keys-only")
	case 3:
		vhSameSeq(vhCollectMapElems("values", func(fn MapElementIterationFunc) error { return m.IterateValues(vhCompare, vhHip, fn) }, false), wantV, "values-only")
	case 4:
		vhSameSeq(vhCollectMapElems("ro keys", m.IterateReadOnlyKeys, true), wantK, "readonly keys-only")
		k, _ := vhCollectMap("loaded", m.IterateReadOnlyLoadedValues)
		vhSameSeq(k, wantK, "loaded values, everything loaded")
	case 5: // overwrite under the cursor
		var got []uint64
		i := 0
		at := vhChoose("overwriteAt", n)
		err := m.Iterate(vhCompare, vhHip, func(k, v Value) (bool, error) {
			kk, _ := k.(vKey)
			got = append(got, kk.id)
			if i == at {
				old, err := m.Set(vhCompare, vhHip, kk, vElem{tag: 4242, size: vhRange32("newvsz", 1, 300)})
				vhAssert(err == nil, "overwrite during iteration")
				if err == nil && old != nil {
					vhDispose(storage, old)
				}
			}
			i++
			return true, nil
		})
		vhAssert(err == nil, "mutating iteration: no error")
		vhSameSeq(got, wantK, "mutating iteration yields each key once")
		model[at].val = 4242
		vhCheckMap(m, addr, model, "after mutating iteration")
	case 6: // bulk pop
		var got []uint64
		popSnap := vhSnapshotAll(storage)
		err := m.PopIterate(func(ks, vs Storable) {
			id, _ := vhKeyID(ks, storage)
			got = append(got, id)
			vhDispose(storage, ks)
			vhDispose(storage, vs)
		})
		vhAssert(err == nil, "pop: no error")
		vhCheckDirtyMarks(storage, popSnap, "pop: dirty marks")
		rev := make([]uint64, n)
		for i := range wantK {
			rev[n-1-i] = wantK[i]
		}
		vhSameSeq(got, rev, "pop order is reverse")
		vhCheckMap(m, addr, nil, "after pop")
		vhAssert(vhStorageSlabCount(storage.BasicSlabStorage) == 1, "emptying releases every auxiliary slab (external group, leaves)")
	}
	vhReach("group-iter-done")
}

// vhKeysInElements: number of keys stored under an element list, descending
// into collision groups of any depth.
func vhKeysInElements(storage SlabStorage, es elements) int {
	n := 0
	switch x := es.(type) {
	case *hkeyElements:
		for _, el := range x.elems {
			n += vhKeysInElement(storage, el)
		}
	case *singleElements:
		n += len(x.elems)
	}
	return n
}

func vhKeysInElement(storage SlabStorage, el element) int {
	switch x := el.(type) {
	case *singleElement:
		return 1
	case *inlineCollisionGroup:
		return vhKeysInElements(storage, x.elements)
	case *externalCollisionGroup:
		slab, ok, _ := storage.Retrieve(x.slabID)
		if !ok {
			return 0
		}
		return vhKeysInElements(storage, slab.(*MapDataSlab).elements)
	}
	return 0
}
