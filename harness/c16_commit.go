//go:build verif

package atree

// C14 / C04 / C16: both commits on the real PersistentSlabStorage with
// modelled goroutines (all sync-level interleavings up to partial-order
// equivalence, happens-before race detection), symbolic fault schedule on the
// ledger double and symbolic encode failures.

import "runtime"

type vhDirty struct {
	id     SlabID
	del    bool   // pending delete
	ver    uint64 // pending version
	oldVer uint64 // committed version before (0 = none)
}

// vhDirtyState: k pending entries over distinct ids (one may be temporary).
func vhDirtyState(st *PersistentSlabStorage, base *vBase, k int, withTemp bool, encFails bool) []*vhDirty {
	pool := []SlabID{vhSlabID(2, 1), vhSlabID(1, 7), vhSlabID(1, 2), vhSlabID(1, 9)}
	var out []*vhDirty
	for i := 0; i < k; i++ {
		d := &vhDirty{id: pool[i]}
		if withTemp && i == k-1 {
			d.id = vhSlabID(0, 3)
		}
		temp := d.id.address == AddressUndefined
		if !temp && (k > 2 || vhChoose("had", 2) == 1) {
			d.oldVer = vhRange("oldver", 1, 100)
			base.regs[d.id] = vhRegister(d.id, d.oldVer)
		}
		if vhChoose("kind", 2) == 1 {
			d.del = true
			st.deltas[d.id] = nil
		} else {
			d.ver = vhRange("ver", 101, 200)
			s := vhVerSlab(d.id, d.ver)
			if encFails && vhBool("encfail") {
				s.storable = vVer{version: d.ver, encFail: true}
			}
			st.deltas[d.id] = s
		}
		out = append(out, d)
	}
	return out
}

func (d *vhDirty) view() uint64 {
	if d.del {
		return 0
	}
	return d.ver
}

func vhCommit(st *PersistentSlabStorage, relaxed bool, w int) error {
	if relaxed {
		return st.NondeterministicFastCommit(w)
	}
	return st.FastCommit(w)
}

// vhCheckPartial: after a (possibly failed) commit every owned entry is
// either written (left the write set, ledger = expected, cache updated) or
// pending (still in the write set, ledger untouched); reads show the latest.
func vhCheckPartial(st *PersistentSlabStorage, base *vBase, ds []*vhDirty, what string) (allWritten bool) {
	allWritten = true
	for _, d := range ds {
		temp := d.id.address == AddressUndefined
		_, pending := st.deltas[d.id]
		bv := vhBaseVersion(base, d.id)
		if temp {
			vhAssert(pending, what+": temp entry stays pending")
			_, inLedger := base.regs[d.id]
			vhAssert(!inLedger, what+": temp entry never written")
		} else if pending {
			allWritten = false
			vhAssert(bv == d.oldVer, what+": pending entry's register untouched")
		} else {
			vhAssert(bv == d.view(), what+": written entry's register equals latest")
			c, cached := st.cache[d.id]
			vhAssert(cached, what+": written entry cached")
			if d.del {
				vhAssert(c == nil, what+": deleted entry cached as deleted")
			} else if c != nil {
				v, _ := vhVersionOf(c)
				vhAssert(v == d.ver, what+": cache holds written version")
			} else {
				vhFail(what + ": cache holds written version")
			}
		}
		// reads continue to return the latest value
		slab, found, err := st.Retrieve(d.id)
		vhAssert(err == nil, what+": retrieve")
		vhAssert(found == !d.del, what+": latest value visible (found)")
		if found && !d.del {
			v, _ := vhVersionOf(slab)
			vhAssert(v == d.ver, what+": latest value visible")
		}
	}
	return allWritten
}

//vh:prop C14
//vh:stubs codec
//vh:param k 3 3
//vh:param workers 1 2
//vh:param retries 1 1
func VH_C14_CommitFaults() {
	k := vhParam("k", 2)
	base := newVBase()
	st := vhNewPersistent(base)
	ds := vhDirtyState(st, base, k, vhChoose("temp", 2) == 1, false)
	relaxed := vhChoose("relaxed", 2) == 1
	w := 1 + vhChoose("workers", vhParam("workers", 1))
	retries := vhParam("retries", 1)
	for attempt := 0; attempt <= retries; attempt++ {
		// fault schedule for this attempt: one symbolic bit per ledger write/delete
		// (keyed by identifier, so that it does not depend on call order); the
		// last attempt is fault-free
		base.faults = map[SlabID]bool{}
		base.ncalls, base.nfailed = 0, 0
		if attempt < retries {
			for _, d := range ds {
				if d.id.address != AddressUndefined {
					base.faults[d.id] = vhBool("fault")
				}
			}
		}
		err := vhCommit(st, relaxed, w)
		failed := base.nfailed
		if failed > 0 {
			vhAssert(err != nil, "a failed ledger call makes the commit report an error")
			vhAssert(vhIsExternal(err), "ledger failure is reported as an external error")
		} else {
			vhAssert(err == nil, "no fault: commit succeeds")
		}
		all := vhCheckPartial(st, base, ds, "after attempt")
		if err == nil {
			vhAssert(all, "successful commit wrote every owned entry")
			vhAssert(st.DeltasWithoutTempAddresses() == 0, "successful commit empties the owned write set")
			vhReach("converged")
			return
		}
	}
	vhFail("fault-free retry must succeed")
}

// Order of ledger calls: ascending (owner, index) for the deterministic
// commit; the relaxed commit may differ only in order. Go map iteration
// order is explored exhaustively.
//
//vh:prop C04
//vh:stubs codec
//vh:maporder any
//vh:param k 3 3
//vh:param workers 1 2
func VH_C04_CommitOrder() {
	k := vhParam("k", 3)
	base := newVBase()
	st := vhNewPersistent(base)
	ds := vhDirtyState(st, base, k, vhChoose("temp", 2) == 1, false)
	relaxed := vhChoose("relaxed", 2) == 1
	w := 1 + vhChoose("workers", vhParam("workers", 1))
	err := vhCommit(st, relaxed, w)
	vhAssert(err == nil, "commit succeeds")
	nowned := 0
	for _, d := range ds {
		if d.id.address != AddressUndefined {
			nowned++
		}
	}
	vhAssert(len(base.log) == nowned, "one ledger call per owned pending entry")
	for i, c := range base.log {
		// each call matches its entry
		matched := false
		for _, d := range ds {
			if d.id == c.id {
				matched = true
				vhAssert((c.op == 'D') == d.del, "call kind matches entry")
			}
		}
		vhAssert(matched, "call targets a pending owned entry")
		if i > 0 {
			vhAssert(base.log[i-1].id != c.id, "no duplicate call")
			if !relaxed {
				vhAssert(base.log[i-1].id.Compare(c.id) < 0, "deterministic commit issues calls in ascending (owner, index) order")
			}
		}
	}
	for _, d := range ds {
		if d.id.address != AddressUndefined {
			vhAssert(vhBaseVersion(base, d.id) == d.view(), "registers are a function of the write set only")
		}
	}
	vhReach("order-checked")
}

// Parallel commit equals sequential commit, has no data race and no deadlock,
// with and without encode errors.
//
//vh:prop C16 C04
//vh:stubs codec
//vh:param k 2 3
//vh:param workers 2 2
func VH_C16_ParallelCommit() {
	k := vhParam("k", 2)
	base := newVBase()
	st := vhNewPersistent(base)
	ds := vhDirtyState(st, base, k, false, true)
	relaxed := vhChoose("relaxed", 2) == 1
	// any number of workers from 1 to the bound: the outcome (registers, write
	// set, error) is the same for all of them, also when a slab fails to encode
	w := 1 + vhChoose("nworkers", vhParam("workers", 2))
	anyEncFail := false
	for _, d := range ds {
		if !d.del {
			if s, ok := st.deltas[d.id].(*StorableSlab); ok && s.storable.(vVer).encFail {
				anyEncFail = true
			}
		}
	}
	err := vhCommit(st, relaxed, w)
	if !anyEncFail {
		vhAssert(err == nil, "no fault: parallel commit succeeds")
		for _, d := range ds {
			vhAssert(vhBaseVersion(base, d.id) == d.view(), "parallel commit: registers equal the sequential result")
			_, pending := st.deltas[d.id]
			vhAssert(!pending, "parallel commit: write set emptied")
		}
	} else {
		vhAssert(err != nil, "encode failure is reported")
		if !relaxed {
			// the deterministic commit encodes everything before the first write
			vhAssert(len(base.log) == 0, "deterministic commit: nothing written when an encode fails")
		}
		vhCheckPartial(st, base, ds, "after encode failure")
	}
	// The commit has returned: its caller owns the slabs again and goes on
	// using them. A worker goroutine that is still reading a slab at this point
	// (it outlived the call) races with the caller: the happens-before
	// detector reports it when the leftover goroutine gets to run.
	for _, d := range ds {
		for _, holder := range []map[SlabID]Slab{st.deltas, st.cache} {
			if ss, ok := holder[d.id].(*StorableSlab); ok {
				ss.storable = vVer{version: 4242}
			}
		}
	}
	for i := 0; i < 3; i++ {
		runtime.Gosched()
	}
	vhReach("parallel-done")
}

// Parallel BatchPreload (>= 11 identifiers): on one canonical schedule the
// happens-before detector still sees every heap access of workers and caller,
// so unsynchronised sharing is a violation; the result (cache content, view,
// error on a failing read) equals the sequential path.
//
//vh:prop C16 C15
//vh:stubs codec
//vh:sched first
//vh:param preload 11 12
func VH_C16_ParallelPreload() {
	n := vhParam("preload", 11)
	base := newVBase()
	st := vhNewPersistent(base)
	var ids []SlabID
	vers := make([]uint64, n)
	missing := vhChoose("missing", n+1) // one identifier may be absent from the ledger
	for i := 0; i < n; i++ {
		id := vhSlabID(1, byte(i+1))
		ids = append(ids, id)
		if i == missing {
			continue
		}
		vers[i] = vhRange("ver", 1, 200)
		base.regs[id] = vhRegister(id, vers[i])
	}
	// a pending change on one identifier must not be disturbed by the preload
	pend := vhChoose("pending", n)
	pv := vhRange("pver", 201, 250)
	_ = st.Store(ids[pend], vhVerSlab(ids[pend], pv))
	failAt := vhChoose("readfault", 3) // 0: none; 1: first read fails; 2: sixth read fails
	if failAt == 1 {
		base.retrFail = 1
	} else if failAt == 2 {
		base.retrFail = 6
	}
	w := 2 + vhChoose("workers", 2)
	err := st.BatchPreload(ids, w)
	if failAt != 0 {
		vhAssert(err != nil, "failing ledger read is reported")
		vhAssert(vhIsExternal(err), "failing ledger read is an external error")
	} else {
		vhAssert(err == nil, "preload succeeds")
		for i, id := range ids {
			c, ok := st.cache[id]
			if i == missing {
				vhAssert(!ok, "absent register is not cached")
				continue
			}
			vhAssert(ok && c != nil, "preloaded slab cached")
			if ok && c != nil {
				v, _ := vhVersionOf(c)
				vhAssert(v == vers[i], "cached slab equals the register")
			}
		}
	}
	// the view never changes
	base.retrFail = 0
	for i, id := range ids {
		slab, found, rerr := st.Retrieve(id)
		vhAssert(rerr == nil, "retrieve after preload")
		want := vers[i]
		if i == pend {
			want = pv
		}
		vhAssert(found == (want != 0), "view: found")
		if found {
			v, _ := vhVersionOf(slab)
			vhAssert(v == want, "view: version")
		}
	}
	vhAssert(len(base.log) == 0, "preload writes nothing")
	// the call has returned: the caller reads its cache while any goroutine that
	// outlived the call gets to run (an unsynchronised access is a race)
	for i := 0; i < 3; i++ {
		runtime.Gosched()
	}
	for _, id := range ids {
		_ = st.cache[id]
	}
	vhReach("preload-done")
}

// The commit order itself, on identifiers whose 16 bytes are ALL symbolic: the
// keys the deterministic commits walk are exactly the owned pending
// identifiers, in strictly ascending (owner, index) order as byte strings
// (owner first, big-endian). Three pending entries; the write set is a Go map
// explored in every iteration order.
//
//vh:prop C04
//vh:maporder any
func VH_C04_CommitKeyOrder() {
	base := newVBase()
	st := vhNewPersistent(base)
	const n = 3
	ids := make([]SlabID, n)
	for i := range ids {
		for b := 0; b < SlabAddressLength; b++ {
			ids[i].address[b] = vhU8("a")
		}
		for b := 0; b < SlabIndexLength; b++ {
			ids[i].index[b] = vhU8("x")
		}
		for j := 0; j < i; j++ {
			vhAssume(ids[i] != ids[j])
		}
		st.deltas[ids[i]] = vhVerSlab(ids[i], uint64(i+1))
	}
	keys := st.sortedOwnedDeltaKeys()
	nowned := 0
	for _, id := range ids {
		if id.address != AddressUndefined {
			nowned++
			found := false
			for _, k := range keys {
				if k == id {
					found = true
				}
			}
			vhAssert(found, "every owned pending identifier is committed")
		}
	}
	vhAssert(len(keys) == nowned, "only owned pending identifiers are committed, each once")
	less := func(x, y SlabID) bool {
		// lexicographic on the 16 raw bytes (owner, then index)
		for b := 0; b < SlabAddressLength; b++ {
			if x.address[b] != y.address[b] {
				return x.address[b] < y.address[b]
			}
		}
		for b := 0; b < SlabIndexLength; b++ {
			if x.index[b] != y.index[b] {
				return x.index[b] < y.index[b]
			}
		}
		return false
	}
	for i := 1; i < len(keys); i++ {
		vhAssert(less(keys[i-1], keys[i]), "commit keys strictly ascending by (owner, index)")
	}
	vhReach("key-order-done")
}
