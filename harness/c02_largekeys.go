//go:build verif

package atree

// Keys AND values too large to be stored inline (each lives in a slab of its
// own, the element holds two references): insert into any valid one- or
// two-leaf map, then overwrite the value (the key's slab is kept, the old
// value's slab is handed back), remove the key (both references are handed
// back and resolve), or bulk-pop the map. Lookups compare through the
// reference; after disposing of what was handed back storage holds exactly the
// reachable slabs, and after the pop exactly the empty root.
//
//vh:prop C02 C09 C06 C03
//vh:param leaves 1 2
func VH_C02_LargeKeys() {
	vhSetThreshold(256)
	logst := &vLogStorage{BasicSlabStorage: vhNewBasicStorage()}
	storage := logst.BasicSlabStorage
	addr := vhAddr(1)
	b := &vDigesterBuilder{levels: 4}
	counts := []int{2}
	if vhChoose("leaves", vhParam("leaves", 1)) == 1 {
		counts = []int{2, 2}
	}
	m, model := vhBuildMap(logst, addr, b, counts)
	rootID := m.SlabID()
	k := vKey{id: 9999, size: vhRange32("bigksz", 1, 65536)}
	for i := range k.d {
		k.d[i] = vhU64("dig")
	}
	vsz := vhRange32("bigvsz", 1, 65536)
	snap := vhSnapshotAll(logst)
	old, err := m.Set(vhCompare, vhHip, k, vElem{tag: 5555, size: vsz})
	vhAssert(err == nil, "set large key: no error")
	if err != nil {
		return
	}
	vhAssert(old == nil, "set large key: no previous value")
	model = append(model, vhKV{key: k, val: 5555})
	vhCheckDirtyMarks(logst, snap, "set large key: dirty marks")
	vhCheckMap(m, addr, model, "after set")
	vhAssert(vhStorageSlabCount(storage) == vhMapSlabCount(storage, rootID), "after set: no leaked or dangling slabs")
	if k.size > maxInlineMapKeySize {
		vhReach("witness: key stored in a slab of its own")
	}
	if vsz > maxInlineMapElementSize-k.size && k.size <= maxInlineMapKeySize {
		vhReach("witness: value stored in a slab of its own")
	}
	snap = vhSnapshotAll(logst)
	switch vhChoose("then", 4) {
	case 0: // overwrite the value
		old, err := m.Set(vhCompare, vhHip, k, vElem{tag: 6666, size: vhRange32("newvsz", 1, 65536)})
		vhAssert(err == nil && old != nil, "overwrite under a large key: previous value handed back")
		if err != nil || old == nil {
			return
		}
		ov, _ := old.StoredValue(storage)
		vhAssert(vhTagOf(ov) == 5555, "overwrite: previous value")
		vhDispose(storage, old)
		model[len(model)-1].val = 6666
	case 1: // remove
		ks, vs, err := m.Remove(vhCompare, vhHip, k)
		vhAssert(err == nil, "remove large key: no error")
		if err != nil {
			return
		}
		kid, ok := vhKeyID(ks, storage)
		vhAssert(ok && kid == 9999, "remove: the key handed back resolves")
		rv, verr := vs.StoredValue(storage)
		vhAssert(verr == nil && vhTagOf(rv) == 5555, "remove: the value handed back resolves")
		vhDispose(storage, ks)
		vhDispose(storage, vs)
		model = model[:len(model)-1]
	case 2: // bulk pop
		seen := 0
		err := m.PopIterate(func(ks, vs Storable) {
			seen++
			vhDispose(storage, ks)
			vhDispose(storage, vs)
		})
		vhAssert(err == nil, "pop: no error")
		vhAssert(seen == len(model), "pop: every entry handed back once")
		model = nil
		vhAssert(vhStorageSlabCount(storage) == 1, "pop: only the empty root remains")
	case 3: // lookups of an absent key with the same digests compare through the reference
		k2 := k
		k2.id = 8888
		_, err := m.Get(vhCompare, vhHip, k2)
		vhAssert(vhIsKeyNotFound(err), "absent key with the large key's digests: key-not-found")
	}
	vhAssert(m.SlabID() == rootID, "root id stable")
	vhCheckDirtyMarks(logst, snap, "dirty marks")
	vhCheckMap(m, addr, model, "post")
	vhAssert(vhStorageSlabCount(storage) == vhMapSlabCount(storage, rootID), "no leaked or dangling slabs")
	vhReach("large-keys-done")
}
