//go:build verif

package atree

// C20 at the REGISTER level (real codec). The slab-level harnesses corrupt
// decoded slabs; here the corruption is in the ledger bytes, so that what the
// health check sees is what the decoders make of them. An array and a map whose
// roots are index slabs are committed; one register is then damaged:
//   0  one byte of the owner address that an index slab records for its
//      children is changed (the children are now "owned by a different address");
//   1  the slab index of one child entry is replaced by that of its sibling
//      (one slab referenced from two places, the other from none);
//   2  the register of a referenced child is deleted;
//   3  nothing (the healthy twin).
// A brand-new storage over the ledger with every register loaded must fail the
// health check for 0..2 and pass it for 3 with the one true root; for 0 and 2
// the all-child-references query on the root must name the unresolvable
// references (and for 0: under the foreign address the register holds).
//
//vh:prop C20 C07
//vh:init cbor
//vh:sched first
func VH_C20_RegisterCorruption() {
	vhSetThreshold(256)
	base := newVBase()
	st := vhNewPersistentB(base)
	addr := vhAddr(1)
	isMap := vhChoose("map", 2) == 1
	var rootID SlabID
	var nchild int
	var hdrSize int
	if isMap {
		m, _ := NewMap(st, addr, NewDefaultDigesterBuilder(), vTypeInfo{id: 42})
		for i := 0; i < 6; i++ {
			_, _ = m.Set(vhCompareBK, vhHipB, vBKey{val: uint64(i + 1)}, vBlob{n: 80})
		}
		root, isMeta := m.root.(*MapMetaDataSlab)
		vhRequire(isMeta, "map root is an index slab")
		nchild = len(root.childrenHeaders)
		hdrSize = mapSlabHeaderSize
		rootID = m.SlabID()
	} else {
		a, _ := NewArray(st, addr, vTypeInfo{id: 42})
		for i := 0; i < 6; i++ {
			_ = a.Append(vBlob{n: 97})
		}
		root, isMeta := a.root.(*ArrayMetaDataSlab)
		vhRequire(isMeta, "array root is an index slab")
		nchild = len(root.childrenHeaders)
		hdrSize = arraySlabHeaderSize
		rootID = a.SlabID()
	}
	vhRequire(nchild >= 2, "at least two children")
	vhAssert(st.FastCommit(1) == nil, "commit")
	reg := base.regs[rootID]
	hdrs := len(reg) - nchild*hdrSize // child entries are the tail of the register
	addrOff := hdrs - 2 - SlabAddressLength
	vhRequire(addrOff >= 2, "index register layout")
	var sharedAddr Address
	copy(sharedAddr[:], reg[addrOff:])
	vhRequire(sharedAddr == addr, "index register records the owner of its children")
	// the child entries start with the 8-byte slab index
	childIndex := func(i int) SlabIndex {
		var x SlabIndex
		copy(x[:], reg[hdrs+i*hdrSize:])
		return x
	}
	kind := vhChoose("kind", 4)
	var foreign Address
	victim := vhChoose("victim", nchild)
	switch kind {
	case 0:
		b := vhChoose("byte", SlabAddressLength)
		mask := []byte{0x01, 0x80, 0xff}[vhChoose("mask", 3)]
		reg[addrOff+b] ^= mask
		copy(foreign[:], reg[addrOff:])
	case 1:
		other := (victim + 1) % nchild
		x := childIndex(other)
		copy(reg[hdrs+victim*hdrSize:], x[:])
	case 2:
		delete(base.regs, SlabID{addr, childIndex(victim)})
	}
	// a brand-new storage with every register loaded
	st2 := vhNewPersistentB(base)
	for id := range base.regs {
		_, _, err := st2.Retrieve(id)
		vhAssert(err == nil, "every register decodes")
	}
	roots, err := CheckStorageHealth(st2, 1)
	if kind == 3 {
		vhAssert(err == nil, "healthy ledger passes the health check")
		if err == nil {
			_, ok := roots[rootID]
			vhAssert(len(roots) == 1 && ok, "healthy ledger: the one true root")
		}
		refs, broken, err := st2.GetAllChildReferences(rootID)
		vhAssert(err == nil && len(broken) == 0 && len(refs) == nchild, "healthy ledger: every child reference resolves")
		vhReach("registers-healthy")
		return
	}
	vhAssert(err != nil, "damaged ledger fails the health check")
	refs, broken, err := st2.GetAllChildReferences(rootID)
	vhAssert(err == nil, "child references of the damaged root")
	if err == nil {
		switch kind {
		case 0:
			vhAssert(len(refs) == 0 && len(broken) == nchild, "foreign owner: every child reference is broken")
			for _, id := range broken {
				vhAssert(id.address == foreign, "foreign owner: the broken reference carries the address the register holds")
			}
		case 2:
			vhAssert(len(broken) == 1 && len(refs) == nchild-1, "deleted child: exactly its reference is broken")
			if len(broken) == 1 {
				vhAssert(broken[0] == SlabID{addr, childIndex(victim)}, "deleted child: the broken reference names it")
			}
		}
	}
	vhReach("registers-damaged")
}
