//go:build verif

package atree

// Array pre-state construction and oracles.

type vhArrayModel struct {
	tags []uint64
}

// vhBuildArray constructs, directly in storage, an array whose leaves hold
// counts[i] elements of symbolic size. One leaf => root data slab; several =>
// root index slab over non-root leaves. Every size-limited slab is assumed to
// be within its band (the representation invariant); element sizes are
// assumed within the inline limit.
func vhBuildArray(storage SlabStorage, addr Address, counts []int) (*Array, []uint64) {
	rootID, _ := storage.GenerateSlabID(addr)
	extra := &ArrayExtraData{TypeInfo: vTypeInfo{id: 42}}
	var tags []uint64
	tag := uint64(100)
	mkElems := func(n int) ([]Storable, uint32) {
		var es []Storable
		sum := uint32(0)
		for i := 0; i < n; i++ {
			s := vhRange32("sz", 1, 32768)
			vhAssume(s <= maxInlineArrayElementSize)
			es = append(es, vElem{tag: tag, size: s})
			tags = append(tags, tag)
			tag++
			sum += s
		}
		return es, sum
	}
	if len(counts) == 1 {
		es, sum := mkElems(counts[0])
		root := &ArrayDataSlab{
			header:    ArraySlabHeader{slabID: rootID, size: arrayRootDataSlabPrefixSize + sum, count: uint32(counts[0])},
			elements:  es,
			extraData: extra,
		}
		vhAssume(root.header.size <= maxThreshold)
		_ = storage.Store(rootID, root)
		return &Array{Storage: storage, root: root}, tags
	}
	root := &ArrayMetaDataSlab{
		header:    ArraySlabHeader{slabID: rootID, size: arrayMetaDataSlabPrefixSize + arraySlabHeaderSize*uint32(len(counts))},
		extraData: extra,
	}
	var leaves []*ArrayDataSlab
	total := uint32(0)
	for _, c := range counts {
		id, _ := storage.GenerateSlabID(addr)
		es, sum := mkElems(c)
		leaf := &ArrayDataSlab{
			header:   ArraySlabHeader{slabID: id, size: arrayDataSlabPrefixSize + sum, count: uint32(c)},
			elements: es,
		}
		vhAssume(leaf.header.size >= minThreshold)
		vhAssume(leaf.header.size <= maxThreshold)
		if n := len(leaves); n > 0 {
			leaves[n-1].next = id
		}
		leaves = append(leaves, leaf)
		total += uint32(c)
		root.childrenHeaders = append(root.childrenHeaders, leaf.header)
		root.childrenCountSum = append(root.childrenCountSum, total)
	}
	root.header.count = total
	for _, l := range leaves {
		_ = storage.Store(l.header.slabID, l)
	}
	_ = storage.Store(rootID, root)
	return &Array{Storage: storage, root: root}, tags
}

func vhTic(a, b TypeInfo) bool {
	if x, ok := a.(vCompositeTypeInfo); ok {
		y, ok2 := b.(vCompositeTypeInfo)
		return ok2 && x.id == y.id
	}
	x, ok1 := a.(vTypeInfo)
	y, ok2 := b.(vTypeInfo)
	return ok1 && ok2 && x.id == y.id
}

func vhHip(v Value, _ []byte) ([]byte, error) { return nil, nil }

func vhTagOf(v Value) uint64 {
	switch v := v.(type) {
	case vElem:
		return v.tag
	}
	return 0
}

// vhCheckArray asserts validity (repository verifier + own checks) and
// content equality with the model.
func vhCheckArray(a *Array, addr Address, model []uint64, what string) {
	err := VerifyArray(a, addr, vTypeInfo{id: 42}, vhTic, vhHip, true)
	vhAssert(err == nil, what+": VerifyArray")
	vhAssert(a.Count() == uint64(len(model)), what+": count")
	if a.Count() != uint64(len(model)) {
		return
	}
	for i, want := range model {
		v, err := a.Get(uint64(i))
		vhAssert(err == nil, what+": Get in range")
		if err != nil {
			return
		}
		vhAssert(vhTagOf(v) == want, what+": content")
	}
}

func vhInsertModel(m []uint64, i int, tag uint64) []uint64 {
	out := make([]uint64, 0, len(m)+1)
	out = append(out, m[:i]...)
	out = append(out, tag)
	out = append(out, m[i:]...)
	return out
}

func vhRemoveModel(m []uint64, i int) []uint64 {
	out := make([]uint64, 0, len(m))
	out = append(out, m[:i]...)
	out = append(out, m[i+1:]...)
	return out
}

// vhStorageSlabCount counts slabs in a BasicSlabStorage.
func vhStorageSlabCount(s *BasicSlabStorage) int { return len(s.Slabs) }

// vhArraySlabCount counts slabs reachable from the array root (tree slabs and
// slabs referenced by elements).
func vhArraySlabCount(storage SlabStorage, id SlabID) int {
	slab, ok, _ := storage.Retrieve(id)
	if !ok {
		vhFail("reachability: dangling reference")
		return 0
	}
	n := 1
	switch s := slab.(type) {
	case *ArrayMetaDataSlab:
		for _, h := range s.childrenHeaders {
			n += vhArraySlabCount(storage, h.slabID)
		}
	default:
		n += vhStorableRefs(storage, slab.ChildStorables())
	}
	return n
}

func vhStorableRefs(storage SlabStorage, cs []Storable) int {
	n := 0
	for _, c := range cs {
		c = unwrapStorable(c)
		switch c := c.(type) {
		case SlabIDStorable:
			n += vhArraySlabCount(storage, SlabID(c))
		case *ArrayDataSlab, *MapDataSlab:
			n += vhStorableRefs(storage, c.ChildStorables())
		}
	}
	return n
}
