//go:build verif

package atree

// Dirty-mark completeness (C03): every slab whose content differs from its
// snapshot, and every new slab, must have been passed to Store by the
// operation -- otherwise the next commit would not persist it.

func vhElemSig(s Storable) (uint64, uint64) {
	s = unwrapStorable(s)
	switch e := s.(type) {
	case vElem:
		return e.tag, uint64(e.size)
	case vKey:
		return e.id, uint64(e.size)
	case SlabIDStorable:
		return SlabID(e).IndexAsUint64() + 1<<40, 0
	case *ArrayDataSlab:
		return e.header.slabID.IndexAsUint64() + 2<<40, uint64(e.header.size)
	case *MapDataSlab:
		return e.header.slabID.IndexAsUint64() + 3<<40, uint64(e.header.size)
	}
	return 0, 0
}

// vhTypeSig: the type identifier carried by a root's extra data (0 = none).
func vhTypeSig(ti TypeInfo) uint64 {
	switch t := ti.(type) {
	case vTypeInfo:
		return t.id + 1
	case vCompositeTypeInfo:
		return t.id + 1 + 1<<32
	}
	return 0
}

// vhInlinedSig: content signature of a container stored inline in an element
// (its own elements and type are part of the enclosing register).
func vhInlinedSig(s Storable) []uint64 {
	s = unwrapStorable(s)
	switch e := s.(type) {
	case *ArrayDataSlab:
		return vhSlabSig(e)
	case *MapDataSlab:
		return vhSlabSig(e)
	}
	return nil
}

// vhElementsSig: content signature of a map element list, descending into
// collision groups (inline groups recursively, external groups by reference).
func vhElementsSig(es elements) []uint64 {
	var sig []uint64
	switch x := es.(type) {
	case *hkeyElements:
		sig = append(sig, 10, uint64(len(x.elems)), uint64(x.size), uint64(x.level))
		for i, el := range x.elems {
			sig = append(sig, uint64(x.hkeys[i]))
			sig = append(sig, vhElementSig(el)...)
		}
	case *singleElements:
		sig = append(sig, 11, uint64(len(x.elems)), uint64(x.size), uint64(x.level))
		for _, el := range x.elems {
			sig = append(sig, vhElementSig(el)...)
		}
	}
	return sig
}

func vhElementSig(el element) []uint64 {
	var sig []uint64
	switch x := el.(type) {
	case *singleElement:
		a, _ := vhElemSig(x.key)
		b, c := vhElemSig(x.value)
		sig = append(sig, 20, uint64(x.size), a, b, c)
		sig = append(sig, vhInlinedSig(x.value)...)
	case *inlineCollisionGroup:
		sig = append(sig, 21)
		sig = append(sig, vhElementsSig(x.elements)...)
	case *externalCollisionGroup:
		sig = append(sig, 22, x.slabID.IndexAsUint64(), uint64(x.size))
	}
	return sig
}

func vhSlabSig(slab Slab) []uint64 {
	var sig []uint64
	switch s := slab.(type) {
	case *ArrayDataSlab:
		sig = append(sig, 1, uint64(s.header.size), uint64(s.header.count), s.next.IndexAsUint64(), uint64(len(s.elements)))
		if s.extraData != nil {
			sig = append(sig, vhTypeSig(s.extraData.TypeInfo))
		}
		for _, e := range s.elements {
			a, b := vhElemSig(e)
			sig = append(sig, a, b)
			sig = append(sig, vhInlinedSig(e)...)
		}
	case *ArrayMetaDataSlab:
		sig = append(sig, 2, uint64(s.header.size), uint64(s.header.count), uint64(len(s.childrenHeaders)))
		if s.extraData != nil {
			sig = append(sig, vhTypeSig(s.extraData.TypeInfo))
		}
		for i, h := range s.childrenHeaders {
			sig = append(sig, h.slabID.IndexAsUint64(), uint64(h.size), uint64(h.count), uint64(s.childrenCountSum[i]))
		}
	case *MapDataSlab:
		sig = append(sig, 3, uint64(s.header.size), uint64(s.header.firstKey), s.next.IndexAsUint64())
		sig = append(sig, vhElementsSig(s.elements)...)
		if s.extraData != nil {
			sig = append(sig, s.extraData.Count, vhTypeSig(s.extraData.TypeInfo))
		}
	case *MapMetaDataSlab:
		sig = append(sig, 4, uint64(s.header.size), uint64(s.header.firstKey), uint64(len(s.childrenHeaders)))
		for _, h := range s.childrenHeaders {
			sig = append(sig, h.slabID.IndexAsUint64(), uint64(h.size), uint64(h.firstKey))
		}
		if s.extraData != nil {
			sig = append(sig, s.extraData.Count, vhTypeSig(s.extraData.TypeInfo))
		}
	case *StorableSlab:
		a, b := vhElemSig(s.storable)
		sig = append(sig, 5, a, b)
	}
	return sig
}

func vhSnapshotAll(s *vLogStorage) map[SlabID][]uint64 {
	snap := map[SlabID][]uint64{}
	for id, slab := range s.Slabs {
		snap[id] = vhSlabSig(slab)
	}
	s.stored = map[SlabID]bool{}
	return snap
}

func vhSigEqual(a, b []uint64) bool {
	if len(a) != len(b) {
		return false
	}
	eq := true
	for i := range a {
		eq = vhAll(eq, a[i] == b[i])
	}
	return eq
}

// vhCheckDirtyMarks: call after the operation.
func vhCheckDirtyMarks(s *vLogStorage, before map[SlabID][]uint64, what string) {
	for id, slab := range s.Slabs {
		old, existed := before[id]
		if !existed {
			vhAssert(s.stored[id], what+": new slab recorded as dirty")
			continue
		}
		if s.stored[id] {
			continue
		}
		vhAssert(vhSigEqual(old, vhSlabSig(slab)), what+": slab mutated in memory but not recorded as dirty")
	}
}
