//go:build verif

package atree

// C17 on streams long enough for THREE levels: at slab size 256 a leaf holds
// three 100-byte elements and an index slab 9..26 children, so 70..115
// elements cover one full index level, the step to a second index level, and
// every way the tail can come out (last leaf with one element, last index slab
// with one or a few children, both at once). The last two elements have
// symbolic sizes (the close-out condition of the last leaf depends on the exact
// size sequence). The result is valid, holds the stream in order, owns exactly
// the reachable slabs, reopens by its identifier, and one more operation at
// either end keeps it valid.
//
//vh:prop C17 C05 C09 C01
//vh:param span 24 46
//vh:param wide 4 8
func VH_C17_ArrayBatchDeep() {
	vhSetThreshold(256)
	// ... plus lengths that need THREE index slabs on one level (the first of them
	// is then out of reach of the tail rebalance)
	span := vhParam("span", 24)
	extra := vhParam("wide", 4)
	ni := vhChoose("n", span+extra)
	n := 70 + ni
	if ni >= span {
		n = 157 + 3*(ni-span)
	}
	storage := vhNewBasicStorage()
	addr := vhAddr(1)
	var model []uint64
	i := 0
	a, err := NewArrayFromBatchData(storage, addr, vTypeInfo{id: 42}, func() (Value, error) {
		if i == n {
			return nil, nil
		}
		s := uint32(100)
		if i >= n-2 {
			s = vhRange32("tailsz", 1, 117)
		}
		e := vElem{tag: uint64(100 + i), size: s}
		model = append(model, e.tag)
		i++
		return e, nil
	})
	vhAssert(err == nil, "batch build: no error")
	if err != nil {
		return
	}
	vhCheckArray(a, addr, model, "batch-built array")
	vhAssert(vhStorageSlabCount(storage) == vhArraySlabCount(storage, a.SlabID()), "batch build: no leaked or dangling slabs")
	if root, ok := a.root.(*ArrayMetaDataSlab); ok {
		if s, found, _ := storage.Retrieve(root.childrenHeaders[0].slabID); found {
			if _, deep := s.(*ArrayMetaDataSlab); deep {
				vhReach("witness: three levels")
			}
		}
		if len(root.childrenHeaders) >= 3 {
			vhReach("witness: three index slabs on one level")
		}
	}
	b, err := NewArrayWithRootID(storage, a.SlabID())
	vhAssert(err == nil && b.Count() == uint64(n), "batch-built array reopens by its identifier")
	switch vhChoose("then", 5) {
	case 3: // an insertion that splits the FIRST leaf (under the first index slab, whose right neighbour was built next to it)
		err = a.Insert(1, vElem{tag: 7, size: vhRange32("newsz", 1, 117)})
		model = vhInsertModel(model, 1, 7)
	case 4: // ... and one in the middle of the stream
		err = a.Insert(uint64(n/2), vElem{tag: 7, size: vhRange32("newsz", 1, 117)})
		model = vhInsertModel(model, n/2, 7)
	case 0:
		err = a.Append(vElem{tag: 7, size: vhRange32("newsz", 1, 117)})
		model = append(model, 7)
	case 1:
		_, err = a.Remove(uint64(n - 1))
		model = model[:n-1]
	case 2:
		_, err = a.Remove(0)
		model = model[1:]
	}
	vhAssert(err == nil, "operation after the batch build")
	if err == nil {
		vhCheckArray(a, addr, model, "after one more operation")
	}
	vhReach("deep-batch-done")
}

// The map builder likewise: 60..100 keys with ascending first-level digests
// and 80-byte values (three levels from about 64 keys on), the last two values
// of symbolic size; built with the source's seed and order.
//
//vh:prop C17 C05 C09 C02
//vh:param span 20 41
//vh:param wide 4 8
func VH_C17_MapBatchDeep() {
	vhSetThreshold(256)
	span := vhParam("span", 20)
	extra := vhParam("wide", 4)
	ni := vhChoose("n", span+extra)
	n := 60 + ni
	if ni >= span {
		n = 125 + 3*(ni-span)
	}
	storage := vhNewBasicStorage()
	addr := vhAddr(1)
	b := &vDigesterBuilder{levels: 4}
	var model []vhKV
	i := 0
	m, err := NewMapFromBatchData(storage, addr, b, vTypeInfo{id: 42}, vhCompare, vhHip, 4711,
		func() (Value, Value, error) {
			if i == n {
				return nil, nil, nil
			}
			k := vKey{id: uint64(i + 1), size: 10, d: [4]uint64{uint64(i+1) * 1000, uint64(i), uint64(i), uint64(i)}}
			s := uint32(80)
			if i >= n-2 {
				s = vhRange32("tailsz", 1, 100)
			}
			val := vElem{tag: uint64(1000 + i), size: s}
			model = append(model, vhKV{key: k, val: val.tag})
			i++
			return k, val, nil
		})
	vhAssert(err == nil, "batch build: no error")
	if err != nil {
		return
	}
	vhAssert(m.root.ExtraData().Seed == 4711, "batch build keeps the given seed")
	vhCheckMap(m, addr, model, "batch-built map")
	vhAssert(vhStorageSlabCount(storage) == vhMapSlabCount(storage, m.SlabID()), "batch build: no leaked or dangling slabs")
	if root, ok := m.root.(*MapMetaDataSlab); ok {
		if s, found, _ := storage.Retrieve(root.childrenHeaders[0].slabID); found {
			if _, deep := s.(*MapMetaDataSlab); deep {
				vhReach("witness: three levels")
			}
		}
	}
	keys, _ := vhCollectMap("iterate", m.IterateReadOnly)
	var want []uint64
	for _, kv := range model {
		want = append(want, kv.key.id)
	}
	vhSameSeq(keys, want, "batch-built map keeps the source order")
	m2, err := NewMapWithRootID(storage, m.SlabID(), b)
	vhAssert(err == nil && m2.Count() == uint64(n), "batch-built map reopens by its identifier")
	switch vhChoose("then", 5) {
	case 3: // a new smallest key: the FIRST leaf (under the first index slab) takes it and may split
		k := vKey{id: 9999, size: 10, d: [4]uint64{500, 1, 1, 1}}
		_, err = m.Set(vhCompare, vhHip, k, vElem{tag: 7, size: vhRange32("newsz", 1, 100)})
		model = append([]vhKV{{key: k, val: 7}}, model...)
	case 4: // ... and one in the middle of the stream
		k := vKey{id: 9999, size: 10, d: [4]uint64{uint64(n/2)*1000 + 500, 1, 1, 1}}
		_, err = m.Set(vhCompare, vhHip, k, vElem{tag: 7, size: vhRange32("newsz", 1, 100)})
		model = append(model, vhKV{key: k, val: 7})
	case 0:
		k := vKey{id: 9999, size: 10, d: [4]uint64{uint64(n+1) * 1000, 1, 1, 1}}
		_, err = m.Set(vhCompare, vhHip, k, vElem{tag: 7, size: vhRange32("newsz", 1, 100)})
		model = append(model, vhKV{key: k, val: 7})
	case 1:
		_, _, err = m.Remove(vhCompare, vhHip, model[n-1].key)
		model = model[:n-1]
	case 2:
		_, _, err = m.Remove(vhCompare, vhHip, model[0].key)
		model = model[1:]
	}
	vhAssert(err == nil, "operation after the batch build")
	if err == nil {
		vhCheckMap(m, addr, model, "after one more operation")
	}
	vhReach("deep-map-batch-done")
}
