//go:build verif

package atree

// C13: every iterator flavour yields exactly the container's elements once,
// in canonical order; ranges; in-iteration overwrite; partially loaded
// containers; reverse-order bulk pop.

func vhCollectArray(what string, run func(fn ArrayIterationFunc) error) []uint64 {
	var got []uint64
	err := run(func(v Value) (bool, error) {
		got = append(got, vhTagOf(v))
		return true, nil
	})
	vhAssert(err == nil, what+": iteration error")
	return got
}

func vhSameSeq(got, want []uint64, what string) {
	vhAssert(len(got) == len(want), what+": length")
	if len(got) != len(want) {
		return
	}
	for i := range got {
		vhAssert(got[i] == want[i], what+": element order")
	}
}

//vh:prop C13 C03
//vh:param leaves 2 3
//vh:param perleaf 3 4
func VH_C13_ArrayIterators() {
	vhSetThreshold(256)
	storage := &vLogStorage{BasicSlabStorage: vhNewBasicStorage()}
	addr := vhAddr(1)
	a, model := vhBuildArray(storage, addr, vhArrayShape())
	n := len(model)
	flavour := vhChoose("flavour", 9)
	switch flavour {
	case 8: // the iterator OBJECTS driven directly
		var next func() (Value, error)
		kind := vhChoose("itkind", 4)
		want := model
		switch kind {
		case 0:
			it, err := a.Iterator()
			vhAssert(err == nil && (n == 0 || it.CanMutate()), "mutable iterator object")
			next = it.Next
		case 1:
			it, err := a.ReadOnlyIterator()
			vhAssert(err == nil && !it.CanMutate(), "read-only iterator object")
			next = it.Next
		case 2:
			it, err := a.ReadOnlyLoadedValueIterator()
			vhAssert(err == nil && !it.CanMutate(), "loaded-value iterator object")
			next = it.Next
		case 3:
			s := vhChoose("start", n+1)
			e := s + vhChoose("len", n-s+1)
			it, err := a.ReadOnlyRangeIterator(uint64(s), uint64(e))
			vhAssert(err == nil, "range iterator object")
			if err != nil {
				return
			}
			next = it.Next
			want = model[s:e]
		}
		var got []uint64
		for {
			v, err := next()
			vhAssert(err == nil, "iterator step: no error")
			if err != nil || v == nil {
				break
			}
			got = append(got, vhTagOf(v))
		}
		vhSameSeq(got, want, "iterator object")
	case 7: // invalid ranges (ANY 64-bit bounds) are rejected by every range flavour, valid ones accepted
		s64, e64 := vhU64("start"), vhU64("end")
		valid := vhAll(s64 <= e64, e64 <= uint64(n))
		count := 0
		visit := func(Value) (bool, error) { count++; return true, nil }
		var err error
		switch vhChoose("rangeapi", 4) {
		case 0:
			err = a.IterateRange(s64, e64, visit)
		case 1:
			err = a.IterateReadOnlyRange(s64, e64, visit)
		case 2:
			_, err = a.RangeIterator(s64, e64)
		case 3:
			_, err = a.ReadOnlyRangeIterator(s64, e64)
		}
		if valid {
			vhAssert(err == nil, "valid range accepted")
		} else {
			vhAssert(err != nil, "invalid range rejected")
			vhAssert(count == 0, "invalid range yields nothing")
		}
	case 0:
		vhSameSeq(vhCollectArray("mutable", a.Iterate), model, "mutable")
	case 1:
		vhSameSeq(vhCollectArray("readonly", a.IterateReadOnly), model, "readonly")
	case 2, 3: // ranges
		s := vhChoose("start", n+1)
		e := s + vhChoose("len", n-s+1)
		run := func(fn ArrayIterationFunc) error { return a.IterateRange(uint64(s), uint64(e), fn) }
		if flavour == 3 {
			run = func(fn ArrayIterationFunc) error { return a.IterateReadOnlyRange(uint64(s), uint64(e), fn) }
		}
		vhSameSeq(vhCollectArray("range", run), model[s:e], "range")
	case 4: // loaded values, symbolic subset of leaves not loaded
		var want []uint64
		if root, ok := a.root.(*ArrayMetaDataSlab); ok {
			storage.unloaded = map[SlabID]bool{}
			pos := 0
			for _, h := range root.childrenHeaders {
				un := vhChoose("unloaded", 2) == 1
				if un {
					storage.unloaded[h.slabID] = true
				} else {
					want = append(want, model[pos:pos+int(h.count)]...)
				}
				pos += int(h.count)
			}
		} else {
			want = model
		}
		vhSameSeq(vhCollectArray("loaded", a.IterateReadOnlyLoadedValues), want, "loaded values")
	case 5: // overwrite the current element during mutable iteration (may split the leaf under the cursor)
		var got []uint64
		i := uint64(0)
		k := vhChoose("overwriteAt", n+1)
		err := a.Iterate(func(v Value) (bool, error) {
			got = append(got, vhTagOf(v))
			if int(i) == k {
				old, err := a.Set(i, vElem{tag: 4242, size: vhRange32("newsz", 1, 300)})
				vhAssert(err == nil, "overwrite during iteration")
				if err == nil {
					vhDispose(storage, old)
				}
			}
			i++
			return true, nil
		})
		vhAssert(err == nil, "mutating iteration: no error")
		vhSameSeq(got, model, "mutating iteration yields each original element once")
		if k < n {
			model[k] = 4242
		}
		vhCheckArray(a, addr, model, "after mutating iteration")
	case 6: // bulk pop: reverse order, container emptied, auxiliary slabs released
		var got []uint64
		popSnap := vhSnapshotAll(storage)
		err := a.PopIterate(func(s Storable) {
			v, _ := s.StoredValue(storage)
			got = append(got, vhTagOf(v))
			vhDispose(storage, s)
		})
		vhAssert(err == nil, "pop: no error")
		vhCheckDirtyMarks(storage, popSnap, "pop: dirty marks")
		rev := make([]uint64, n)
		for i := range model {
			rev[n-1-i] = model[i]
		}
		vhSameSeq(got, rev, "pop order is reverse")
		vhCheckArray(a, addr, nil, "after pop")
		vhAssert(vhStorageSlabCount(storage.BasicSlabStorage) == 1, "emptying releases every auxiliary slab")
	}
	vhReach("iter-done")
}

func vhCollectMap(what string, run func(fn MapEntryIterationFunc) error) (keys, vals []uint64) {
	err := run(func(k, v Value) (bool, error) {
		kk, _ := k.(vKey)
		keys = append(keys, kk.id)
		vals = append(vals, vhTagOf(v))
		return true, nil
	})
	vhAssert(err == nil, what+": iteration error")
	return
}

func vhCollectMapElems(what string, run func(fn MapElementIterationFunc) error, keys bool) (out []uint64) {
	err := run(func(v Value) (bool, error) {
		if keys {
			kk, _ := v.(vKey)
			out = append(out, kk.id)
		} else {
			out = append(out, vhTagOf(v))
		}
		return true, nil
	})
	vhAssert(err == nil, what+": iteration error")
	return
}

//vh:prop C13 C03
//vh:param leaves 2 2
//vh:param perleaf 3 4
func VH_C13_MapIterators() {
	vhSetThreshold(256)
	storage := &vLogStorage{BasicSlabStorage: vhNewBasicStorage()}
	addr := vhAddr(1)
	b := &vDigesterBuilder{levels: 4}
	m, model := vhBuildMap(storage, addr, b, vhMapShape())
	n := len(model)
	var wantK, wantV []uint64
	for _, kv := range model { // built in ascending first-level digest order
		wantK = append(wantK, kv.key.id)
		wantV = append(wantV, kv.val)
	}
	flavour := vhChoose("flavour", 9)
	switch flavour {
	case 8: // the iterator OBJECTS driven directly: Next / NextKey / NextValue of every kind
		var it MapIterator
		var ierr error
		kind := vhChoose("itkind", 3)
		switch kind {
		case 0:
			it, ierr = m.Iterator(vhCompare, vhHip)
		case 1:
			it, ierr = m.ReadOnlyIterator()
		case 2:
			it, ierr = m.ReadOnlyLoadedValueIterator()
		}
		vhAssert(ierr == nil, "iterator object")
		if ierr != nil {
			return
		}
		vhAssert(it.CanMutate() == (kind == 0), "CanMutate tells the mutable iterator apart")
		var gotK, gotV []uint64
		step := vhChoose("step", 3)
		for {
			var k, v Value
			var nerr error
			switch step {
			case 0:
				k, v, nerr = it.Next()
			case 1:
				k, nerr = it.NextKey()
			case 2:
				v, nerr = it.NextValue()
			}
			vhAssert(nerr == nil, "iterator step: no error")
			if nerr != nil || (k == nil && v == nil) {
				break
			}
			if k != nil {
				kk, _ := k.(vKey)
				gotK = append(gotK, kk.id)
			}
			if v != nil {
				gotV = append(gotV, vhTagOf(v))
			}
		}
		if step != 2 {
			vhSameSeq(gotK, wantK, "iterator object: keys")
		}
		if step != 1 {
			vhSameSeq(gotV, wantV, "iterator object: values")
		}
	case 0:
		k, v := vhCollectMap("mutable", func(fn MapEntryIterationFunc) error { return m.Iterate(vhCompare, vhHip, fn) })
		vhSameSeq(k, wantK, "mutable keys")
		vhSameSeq(v, wantV, "mutable values")
	case 1:
		k, v := vhCollectMap("readonly", m.IterateReadOnly)
		vhSameSeq(k, wantK, "readonly keys")
		vhSameSeq(v, wantV, "readonly values")
	case 2:
		vhSameSeq(vhCollectMapElems("keys", func(fn MapElementIterationFunc) error { return m.IterateKeys(vhCompare, vhHip, fn) }, true), wantK, "keys-only")
	case 3:
		vhSameSeq(vhCollectMapElems("values", func(fn MapElementIterationFunc) error { return m.IterateValues(vhCompare, vhHip, fn) }, false), wantV, "values-only")
	case 4:
		vhSameSeq(vhCollectMapElems("ro keys", m.IterateReadOnlyKeys, true), wantK, "readonly keys-only")
		vhSameSeq(vhCollectMapElems("ro values", m.IterateReadOnlyValues, false), wantV, "readonly values-only")
	case 5: // loaded values with a symbolic subset of leaves not loaded
		var wk []uint64
		if root, ok := m.root.(*MapMetaDataSlab); ok {
			storage.unloaded = map[SlabID]bool{}
			pos := 0
			for _, h := range root.childrenHeaders {
				slab, _, _ := storage.BasicSlabStorage.Retrieve(h.slabID)
				cnt := int(slab.(*MapDataSlab).elements.Count())
				if vhChoose("unloaded", 2) == 1 {
					storage.unloaded[h.slabID] = true
				} else {
					wk = append(wk, wantK[pos:pos+cnt]...)
				}
				pos += cnt
			}
		} else {
			wk = wantK
		}
		k, _ := vhCollectMap("loaded", m.IterateReadOnlyLoadedValues)
		vhSameSeq(k, wk, "loaded values")
	case 6: // overwrite the current entry's value during mutable iteration
		var got []uint64
		i := 0
		at := vhChoose("overwriteAt", n+1)
		err := m.Iterate(vhCompare, vhHip, func(k, v Value) (bool, error) {
			kk, _ := k.(vKey)
			got = append(got, kk.id)
			if i == at {
				old, err := m.Set(vhCompare, vhHip, kk, vElem{tag: 4242, size: vhRange32("newvsz", 1, 300)})
				vhAssert(err == nil, "overwrite during iteration")
				if err == nil && old != nil {
					vhDispose(storage, old)
				}
			}
			i++
			return true, nil
		})
		vhAssert(err == nil, "mutating iteration: no error")
		vhSameSeq(got, wantK, "mutating iteration yields each key once")
		if at < n {
			model[at].val = 4242
		}
		vhCheckMap(m, addr, model, "after mutating iteration")
	case 7: // bulk pop: reverse order, emptied
		var got []uint64
		popSnap := vhSnapshotAll(storage)
		err := m.PopIterate(func(ks, vs Storable) {
			id, _ := vhKeyID(ks, storage)
			got = append(got, id)
			vhDispose(storage, ks)
			vhDispose(storage, vs)
		})
		vhAssert(err == nil, "pop: no error")
		vhCheckDirtyMarks(storage, popSnap, "pop: dirty marks")
		rev := make([]uint64, n)
		for i := range wantK {
			rev[n-1-i] = wantK[i]
		}
		vhSameSeq(got, rev, "pop order is reverse")
		vhCheckMap(m, addr, nil, "after pop")
		vhAssert(vhStorageSlabCount(storage.BasicSlabStorage) == 1, "emptying releases every auxiliary slab")
	}
	vhReach("iter-done")
}

func vhIsReadOnlyMutation(err error) bool {
	var e *ReadOnlyIteratorElementMutationError
	return errorsAs(err, &e)
}

// Mutating a nested container during iteration: through a mutable iterator it
// is supported and neither skips nor repeats (the child may outgrow the inline
// limit and restructure the parent under the cursor); through a read-only
// iterator the child's mutation functions report the mutation error and the
// parent is left unchanged.
//
//vh:prop C13 C10
//vh:param children 2 2
func VH_C13_NestedIteration() {
	vhSetThreshold(256)
	storage := vhNewBasicStorage()
	addr := vhAddr(1)
	parent, _ := NewArray(storage, addr, vTypeInfo{id: 42})
	nchild := vhParam("children", 2)
	// layout: scalar, child, scalar, child ... (sizes symbolic)
	var kinds []bool // true = child
	var vids []ValueID
	var tags []uint64
	for i := 0; i < nchild; i++ {
		t := uint64(10 + i)
		_ = parent.Append(vElem{tag: t, size: vhRange32("sz", 1, 100)})
		kinds, vids, tags = append(kinds, false), append(vids, ValueID{}), append(tags, t)
		c, _ := NewArray(storage, addr, vTypeInfo{id: 42})
		_ = c.Append(vElem{tag: 500, size: vhRange32("csz", 1, 60)})
		_ = parent.Append(c)
		kinds, vids, tags = append(kinds, true), append(vids, c.ValueID()), append(tags, 0)
	}
	readOnly := vhChoose("readonly", 2) == 1
	mutateAt := vhChoose("mutateAt", len(kinds)+1)
	i := 0
	visit := func(v Value) (bool, error) {
		if i < len(kinds) {
			if kinds[i] {
				c, ok := v.(*Array)
				vhAssert(ok, "child yielded as an array")
				if ok {
					vhAssert(c.ValueID() == vids[i], "children in index order")
					if i == mutateAt || mutateAt == len(kinds) {
						err := c.Append(vElem{tag: 600, size: vhRange32("grow", 1, 250)})
						if readOnly {
							vhAssert(err != nil, "read-only iteration: child mutation is reported")
							vhAssert(vhIsReadOnlyMutation(err), "read-only iteration: mutation error kind")
							// ... and every further attempt on the same object as well
							err2 := c.Append(vElem{tag: 601, size: vhRange32("grow", 1, 250)})
							vhAssert(err2 != nil, "read-only iteration: second child mutation is reported too")
							vhAssert(vhIsReadOnlyMutation(err2), "read-only iteration: second mutation error kind")
							// (what a rejected mutation leaves behind in memory is documented as
							// unspecified -- "not guaranteed to persist" -- and not asserted)
						} else {
							vhAssert(err == nil, "mutable iteration: child mutation supported")
						}
					}
				}
			} else {
				vhAssert(vhTagOf(v) == tags[i], "scalars in index order")
			}
		}
		i++
		return true, nil
	}
	var err error
	callbacks := 0
	if readOnly && vhChoose("withcallback", 2) == 1 {
		// the documented mutation callback is invoked for every rejected attempt
		err = parent.IterateReadOnlyWithMutationCallback(visit, func(Value) { callbacks++ })
		nchildMutated := 0
		for k := range kinds {
			if kinds[k] && (k == mutateAt || mutateAt == len(kinds)) {
				nchildMutated++
			}
		}
		vhAssert(callbacks == 2*nchildMutated, "mutation callback invoked once per rejected attempt")
	} else if readOnly {
		err = parent.IterateReadOnly(visit)
	} else {
		err = parent.Iterate(visit)
	}
	vhAssert(err == nil, "iteration: no error")
	vhAssert(i == len(kinds), "every element exactly once")
	if !readOnly {
		verr := VerifyArray(parent, addr, vTypeInfo{id: 42}, vhTic, vhHip, true)
		vhAssert(verr == nil, "parent valid after mutating children during iteration")
		// the growth is visible through the parent
		for k := range kinds {
			if kinds[k] && (k == mutateAt || mutateAt == len(kinds)) {
				v, gerr := parent.Get(uint64(k))
				vhAssert(gerr == nil, "get child")
				if gerr == nil {
					vhAssert(v.(*Array).Count() == 2, "child mutation visible through parent")
				}
			}
		}
	}
	vhReach("nested-iter-done")
}

// The same under MAP enumeration: a parent map whose values are, alternately,
// scalars and nested arrays (key and value sizes symbolic, first-level digests
// in ascending disjoint windows so the canonical order is known). During a
// mutable enumeration (entries, values only, or the iterator object) the
// callback grows one child or every child by an element of symbolic size: the
// child may stop fitting inline and the parent's slab under the cursor may
// split -- the enumeration still yields every key exactly once in digest
// order (the next-key hand-off was computed before the element was handed
// out), the parent is valid afterwards and shows the growth.
//
//vh:prop C13 C10
//vh:param entries 4 5
func VH_C13_NestedMapIteration() {
	vhSetThreshold(256)
	storage := vhNewBasicStorage()
	addr := vhAddr(1)
	b := &vDigesterBuilder{levels: 4}
	parent, _ := NewMap(storage, addr, b, vTypeInfo{id: 42})
	n := vhParam("entries", 4)
	keys := make([]vKey, n)
	isChild := make([]bool, n)
	vids := make([]ValueID, n)
	for i := 0; i < n; i++ {
		k := vhNewKeyWin(uint64(i+1), uint64(i+1)*vhDigWin, uint64(i+1)*vhDigWin+1000, true)
		vhAssume(k.size <= 60)
		keys[i] = k
		var val Value
		if i%2 == 1 {
			c, _ := NewArray(storage, addr, vTypeInfo{id: 42})
			_ = c.Append(vElem{tag: 500, size: vhRange32("csz", 1, 60)})
			isChild[i] = true
			vids[i] = c.ValueID()
			val = c
		} else {
			val = vElem{tag: uint64(10 + i), size: vhRange32("sz", 1, 100)}
		}
		_, err := parent.Set(vhCompare, vhHip, k, val)
		vhAssert(err == nil, "setup: set")
	}
	slabsBefore := vhStorageSlabCount(storage)
	mutateAt := vhChoose("mutateAt", n+1)
	i := 0
	visit := func(k Value, v Value) {
		if i >= n {
			i++
			return
		}
		if k != nil {
			kk, ok := k.(vKey)
			vhAssert(ok && kk.id == keys[i].id, "keys in canonical order")
		}
		if isChild[i] {
			c, ok := v.(*Array)
			vhAssert(ok, "child yielded as an array")
			if ok {
				vhAssert(c.ValueID() == vids[i], "children in canonical order")
				if i == mutateAt || mutateAt == n {
					err := c.Append(vElem{tag: 600, size: vhRange32("grow", 1, 250)})
					vhAssert(err == nil, "mutable enumeration: child mutation supported")
				}
			}
		} else {
			vhAssert(vhTagOf(v) == uint64(10+i), "scalars in canonical order")
		}
		i++
	}
	var err error
	switch vhChoose("flavour", 3) {
	case 0:
		err = parent.Iterate(vhCompare, vhHip, func(k, v Value) (bool, error) { visit(k, v); return true, nil })
	case 1:
		err = parent.IterateValues(vhCompare, vhHip, func(v Value) (bool, error) { visit(nil, v); return true, nil })
	case 2:
		it, ierr := parent.Iterator(vhCompare, vhHip)
		vhAssert(ierr == nil, "iterator")
		if ierr != nil {
			return
		}
		for {
			k, v, nerr := it.Next()
			if nerr != nil {
				err = nerr
				break
			}
			if k == nil {
				break
			}
			visit(k, v)
		}
	}
	vhAssert(err == nil, "enumeration: no error")
	vhAssert(i == n, "every entry exactly once")
	verr := VerifyMap(parent, addr, vTypeInfo{id: 42}, vhTic, vhHip, true)
	vhAssert(verr == nil, "parent valid after growing children during enumeration")
	for k := 0; k < n; k++ {
		v, gerr := parent.Get(vhCompare, vhHip, keys[k])
		vhAssert(gerr == nil, "get after enumeration")
		if gerr != nil {
			continue
		}
		if isChild[k] {
			want := uint64(1)
			if k == mutateAt || mutateAt == n {
				want = 2
			}
			c, ok := v.(*Array)
			vhAssert(ok && c.Count() == want, "child growth visible through the parent")
		} else {
			vhAssert(vhTagOf(v) == uint64(10+k), "scalar unchanged")
		}
	}
	if vhStorageSlabCount(storage) > slabsBefore {
		vhReach("witness: growth under the cursor added slabs (split or child became standalone)")
	}
	vhAssert(vhStorageSlabCount(storage) == vhMapSlabCount(storage, parent.SlabID()), "no leaked or dangling slabs")
	vhReach("nested-map-iter-done")
}
