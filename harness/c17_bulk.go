//go:build verif

package atree

import "errors"

// C17: bulk build, copy and byte conversion.

//vh:prop C17 C05 C09 C06
//vh:param n 7 10
func VH_C17_ArrayBatch() {
	T := uint32(256)
	if vhParam("symT", 0) == 1 {
		T = vhRange32("T", 256, 32768)
	}
	vhSetThresholdSym(T)
	nmax := vhParam("n", 7)
	n := vhChoose("n", nmax+1)
	storage := vhNewBasicStorage()
	addr := vhAddr(1)
	var model []uint64
	i := 0
	a, err := NewArrayFromBatchData(storage, addr, vTypeInfo{id: 42}, func() (Value, error) {
		if i == n {
			return nil, nil
		}
		s := vhRange32("sz", 1, 65536) // above the inline limit => externalised by the element itself
		e := vElem{tag: uint64(100 + i), size: s}
		model = append(model, e.tag)
		i++
		return e, nil
	})
	vhAssert(err == nil, "batch build: no error")
	if err != nil {
		return
	}
	vhCheckArray(a, addr, model, "batch-built array")
	vhAssert(vhStorageSlabCount(storage) == vhArraySlabCount(storage, a.SlabID()), "batch build: no leaked or dangling slabs")
	// structure is usable exactly like an op-by-op built one: one more step keeps it valid
	err = a.Append(vElem{tag: 7, size: vhRange32("newsz", 1, 117)})
	vhAssert(err == nil, "append after batch build")
	if err == nil {
		vhCheckArray(a, addr, append(model, 7), "after append")
	}
	vhReach("batch-done")
}

func vhIsHashError(err error) bool {
	var e *HashError
	return errors.As(err, &e)
}

func vhIsDuplicateKey(err error) bool {
	var e *DuplicateKeyError
	return errors.As(err, &e)
}

//vh:prop C17 C05 C09 C06
//vh:param n 3 4
func VH_C17_MapBatch() {
	vhSetThreshold(256)
	nmax := vhParam("n", 4)
	n := vhChoose("n", nmax+1)
	storage := vhNewBasicStorage()
	addr := vhAddr(1)
	b := &vDigesterBuilder{levels: 4}
	// the collision limit: a stream that individual operations could have built
	// (no digest shared by more than limit+1 keys) must be accepted by the batch
	// builder too -- copying a map that sits exactly at its limit is legal
	limit := []uint32{255, 0, 1, 2}[vhChoose("climit", 4)]
	maxCollisionLimitPerDigest = limit
	var model []vhKV
	sorted := true
	distinct := true
	i := 0
	run, maxRun := 0, 0
	var prev uint64
	m, err := NewMapFromBatchData(storage, addr, b, vTypeInfo{id: 42}, vhCompare, vhHip, 12345,
		func() (Value, Value, error) {
			if i == n {
				return nil, nil, nil
			}
			k := vhNewKey(uint64(i + 1))
			if i > 0 && k.d[0] < prev {
				sorted = false
			}
			if i > 0 && k.d[0] == prev {
				distinct = false // colliding keys are ordered by their deeper digests, not by the source
				run++
			} else {
				run = 1
			}
			if run > maxRun {
				maxRun = run
			}
			prev = k.d[0]
			val := vElem{tag: uint64(1000 + i), size: vhRange32("vsz", 1, 300)}
			model = append(model, vhKV{key: k, val: val.tag})
			i++
			return k, val, nil
		})
	if !sorted {
		vhAssert(err != nil, "unsorted digests: rejected")
		vhAssert(vhIsHashError(err), "unsorted digests: hash error")
		vhReach("batch-unsorted")
		return
	}
	maxCollisionLimitPerDigest = 255
	if uint32(maxRun) > limit+1 {
		// beyond what individual operations accept: refusing or building are both fine
		vhReach("batch-over-limit")
		return
	}
	vhAssert(err == nil, "batch build: no error")
	if err != nil {
		return
	}
	vhAssert(m.root.ExtraData().Seed == 12345, "batch build keeps the given seed")
	vhCheckMap(m, addr, model, "batch-built map")
	vhAssert(vhStorageSlabCount(storage) == vhMapSlabCount(storage, m.SlabID()), "batch build: no leaked or dangling slabs")
	// iteration order = source order (for sources without first-level collisions)
	if !distinct {
		vhReach("batch-done")
		return
	}
	keys, _ := vhCollectMap("iterate", m.IterateReadOnly)
	var want []uint64
	for _, kv := range model {
		want = append(want, kv.key.id)
	}
	vhSameSeq(keys, want, "batch-built map keeps the source order")
	vhReach("batch-done")
}

//vh:prop C17
//vh:param n 3 4
func VH_C17_ArrayCopy() {
	vhSetThreshold(256)
	storage := vhNewBasicStorage()
	addr := vhAddr(1)
	n := vhChoose("n", vhParam("n", 3)+1)
	a, err := NewArray(storage, addr, vTypeInfo{id: 42})
	vhAssert(err == nil, "new array")
	var model []uint64
	allPlain := true
	for i := 0; i < n; i++ {
		kind := vhChoose("kind", 4)
		tag := uint64(100 + i)
		switch kind {
		case 0: // plain inline element
			err = a.Append(vElem{tag: tag, size: vhRange32("sz", 1, 60)})
		case 1: // large element => reference to a storable slab
			err = a.Append(vElem{tag: tag, size: vhRange32("bigsz", 118, 400)})
			allPlain = false
		case 2: // wrapped plain element
			err = a.Append(vWrapValue{inner: vElem{tag: tag, size: vhRange32("sz", 1, 40)}, extra: 2})
		case 3: // nested (inlined) array
			c, _ := NewArray(storage, addr, vTypeInfo{id: 42})
			err = a.Append(c)
			allPlain = false
			tag = 0
		}
		vhAssert(err == nil, "setup append")
		model = append(model, tag)
	}
	single := a.IsWithinSingleSlab()
	can := a.CanCopyNonRefSimple()
	vhAssert(can == (single && allPlain), "copy offered exactly for single-slab arrays of plain values")
	if !can {
		vhReach("copy-not-offered")
		return
	}
	cp, err := a.CopyNonRefSimple(vhAddr(2))
	vhAssert(err == nil, "offered copy succeeds")
	if err != nil {
		return
	}
	vhAssert(cp.SlabID() != a.SlabID(), "copy has a fresh identifier")
	vhAssert(cp.Address() == vhAddr(2), "copy has the requested owner")
	// the copy is a stored value of its own
	rcp, rerr := NewArrayWithRootID(storage, cp.SlabID())
	vhAssert(rerr == nil, "copy reopens by its root identifier")
	if rerr == nil {
		vhAssert(rcp.Count() == a.Count(), "reopened copy count")
	}
	verr := VerifyArray(cp, vhAddr(2), vTypeInfo{id: 42}, vhTic, vhHip, true)
	vhAssert(verr == nil, "copy is structurally valid")
	vhAssert(cp.Count() == a.Count(), "copy count")
	for i := range model {
		v, err := cp.Get(uint64(i))
		vhAssert(err == nil, "copy get")
		if err == nil {
			u, _ := unwrapValue(v)
			vhAssert(vhTagOf(u) == model[i], "copy content")
		}
	}
	// independence: mutate one, the other is unchanged
	switch mut := vhChoose("mutate", 4); {
	case mut >= 2:
		// a type change of one leaves the other's type alone, in memory and after reopening
		target, other, otherID := cp, a, a.SlabID()
		if mut == 3 {
			target, other, otherID = a, cp, cp.SlabID()
		}
		vhAssert(target.SetType(vTypeInfo{id: 77}) == nil, "type change of one array")
		vhAssert(vhTic(target.Type(), vTypeInfo{id: 77}), "type change applied")
		vhAssert(vhTic(other.Type(), vTypeInfo{id: 42}), "type of the other array unaffected")
		ro, rerr := NewArrayWithRootID(storage, otherID)
		vhAssert(rerr == nil && vhTic(ro.Type(), vTypeInfo{id: 42}), "type of the other array unaffected after reopening")
		vhReach("copy-done")
		return
	}
	if vhChoose("mutate2", 2) == 0 {
		err = cp.Append(vElem{tag: 9, size: vhRange32("newsz", 1, 117)})
		vhAssert(err == nil, "mutate copy")
		vhAssert(a.Count() == uint64(n), "source unaffected by mutating the copy")
		verr = VerifyArray(a, addr, vTypeInfo{id: 42}, vhTic, vhHip, true)
		vhAssert(verr == nil, "source still valid")
	} else if n > 0 {
		old, err := a.Set(0, vElem{tag: 9, size: vhRange32("newsz", 1, 117)})
		vhAssert(err == nil, "mutate source")
		if err == nil {
			vhDispose(storage, old)
		}
		v, err := cp.Get(0)
		vhAssert(err == nil, "copy get after source mutation")
		if err == nil {
			u, _ := unwrapValue(v)
			vhAssert(vhTagOf(u) == model[0], "copy unaffected by mutating the source")
		}
		verr = VerifyArray(cp, vhAddr(2), vTypeInfo{id: 42}, vhTic, vhHip, true)
		vhAssert(verr == nil, "copy still valid")
	}
	vhReach("copy-done")
}

// vByte: a byte element for the byte-slice conversions.
type vByte byte

func (b vByte) Encode(*Encoder) error                  { return nil }
// (value-dependent, like a tagged CBOR uint8: small values take one byte less)
func (b vByte) ByteSize() uint32 {
	if b < 24 {
		return 3
	}
	return 4
}
func (b vByte) StoredValue(SlabStorage) (Value, error) { return b, nil }
func (b vByte) ChildStorables() []Storable             { return nil }
func (b vByte) CanCopyNonRefSimple() bool              { return true }
func (b vByte) CopyNonRefSimple() (Storable, error)    { return b, nil }
func (b vByte) Storable(SlabStorage, Address, uint32) (Storable, error) {
	return b, nil
}

//vh:prop C17 C09 C06
//vh:param n 4 7
func VH_C17_Bytes() {
	vhSetThreshold(256)
	storage := vhNewBasicStorage()
	addr := vhAddr(1)
	// short inputs with symbolic bytes, or long inputs (concrete bytes) around
	// the lengths where the caller's size estimate and the real encoded size
	// fall on different sides of the one-slab limit
	var data []byte
	n := 0
	if vhChoose("long", 2) == 0 {
		n = vhChoose("n", vhParam("n", 6)+1)
		data = make([]byte, n)
		for i := range data {
			data[i] = vhU8("byte")
		}
	} else {
		longs := []int{62, 63, 64, 94, 95, 126}
		n = longs[vhChoose("longn", len(longs))]
		data = make([]byte, n)
		for i := range data {
			data[i] = byte(i * 7)
		}
	}
	est := vhRange32("estimate", 0, 200) // 0 = default; large estimates force the fallback path
	a, err := ByteSliceToByteArray[vByte](storage, addr, vTypeInfo{id: 42}, data, est)
	vhAssert(err == nil, "bytes to array: no error")
	if err != nil {
		return
	}
	verr := VerifyArray(a, addr, vTypeInfo{id: 42}, vhTic, vhHip, true)
	vhAssert(verr == nil, "byte array is structurally valid")
	vhAssert(a.Count() == uint64(n), "byte array count")
	back, err := ByteArrayToByteSlice[vByte](a)
	vhAssert(err == nil, "array to bytes: no error")
	vhAssert(len(back) == n, "round trip length")
	if len(back) == n {
		for i := range data {
			vhAssert(back[i] == data[i], "round trip content")
		}
	}
	vhAssert(vhStorageSlabCount(storage) == vhArraySlabCount(storage, a.SlabID()), "bytes: no leaked slabs")
	// a non-byte element is rejected
	if vhChoose("foreign", 2) == 1 {
		err = a.Append(vElem{tag: 1, size: 3})
		vhAssert(err == nil, "append foreign element")
		_, err = ByteArrayToByteSlice[vByte](a)
		vhAssert(err != nil, "foreign element rejected")
		vhAssert(vhIsUser(err), "foreign element: caller-mistake category")
	}
	vhReach("bytes-done")
}

// Map copy: offered for single-slab maps of plain values; the copy is valid,
// equal and independent of the source under mutation of either.
//
//vh:prop C17 C02 C05
//vh:param keys 3 4
func VH_C17_MapCopy() {
	vhSetThreshold(256)
	storage := vhNewBasicStorage()
	addr := vhAddr(1)
	b := &vDigesterBuilder{levels: 4}
	var m *OrderedMap
	var model []vhKV
	if vhChoose("withgroup", 2) == 0 {
		n := 1 + vhChoose("n", vhParam("keys", 3))
		m, model = vhBuildMap(storage, addr, b, []int{n})
	} else {
		// a single-slab map holding a collision group: inline (plain values: the
		// copy is offered and copies the group), nested, last-level list, or an
		// external group (a reference to another slab: not offered)
		if vhChoose("listmode", 2) == 1 {
			b.levels = 1
		}
		nsingle := vhChoose("nsingle", 2)
		external := vhChoose("external", 2) == 1
		deep := b.levels > 1 && vhChoose("deep", 2) == 1
		m, model, _ = vhBuildGroupMapDeep(storage, addr, b, nsingle, 2, vhChoose("gpos", nsingle+1), external, deep)
		if external {
			vhAssert(!m.CanCopyNonRefSimple(), "copy not offered for a map that references another slab")
			vhReach("mapcopy-done")
			return
		}
	}
	vhAssert(m.CanCopyNonRefSimple(), "copy offered for a single-slab map of plain values")
	b2 := &vDigesterBuilder{levels: b.levels}
	cp, err := m.CopyNonRefSimple(vhAddr(2), b2)
	vhAssert(err == nil, "offered copy succeeds")
	if err != nil {
		return
	}
	vhAssert(cp.SlabID() != m.SlabID(), "copy has a fresh identifier")
	cmodel := append([]vhKV{}, model...)
	vhCheckMap(cp, vhAddr(2), cmodel, "copy")
	// the copy is a stored value of its own
	rcp, rerr := NewMapWithRootID(storage, cp.SlabID(), b2)
	vhAssert(rerr == nil, "copy reopens by its root identifier")
	if rerr == nil {
		vhAssert(rcp.Count() == uint64(len(cmodel)), "reopened copy count")
	}
	// mutate one of them with a symbolic operation, then both must match their own model
	target, tmodel, taddr := m, &model, addr
	if vhChoose("mutate", 2) == 1 {
		target, tmodel, taddr = cp, &cmodel, vhAddr(2)
	}
	_ = taddr
	switch vhChoose("op", 4) {
	case 3: // a type change of one leaves the other's type alone
		other := cp
		if target == cp {
			other = m
		}
		vhAssert(target.SetType(vTypeInfo{id: 77}) == nil, "type change of one map")
		vhAssert(vhTic(target.Type(), vTypeInfo{id: 77}), "type change applied")
		vhAssert(vhTic(other.Type(), vTypeInfo{id: 42}), "type of the other map unaffected")
		vhReach("mapcopy-done")
		return
	case 0: // remove any key
		i := vhChoose("which", len(*tmodel))
		ks, vs, err := target.Remove(vhCompare, vhHip, (*tmodel)[i].key)
		vhAssert(err == nil, "remove from one map")
		if err != nil {
			return
		}
		vhDispose(storage, ks)
		vhDispose(storage, vs)
		*tmodel = append(append([]vhKV{}, (*tmodel)[:i]...), (*tmodel)[i+1:]...)
	case 1: // insert a key with any digest
		k := vhNewKey(9999)
		old, err := target.Set(vhCompare, vhHip, k, vElem{tag: 5555, size: vhRange32("newvsz", 1, 50)})
		vhAssert(err == nil && old == nil, "insert into one map")
		if err != nil {
			return
		}
		*tmodel = append(*tmodel, vhKV{key: k, val: 5555})
	case 2: // update
		i := vhChoose("which", len(*tmodel))
		old, err := target.Set(vhCompare, vhHip, (*tmodel)[i].key, vElem{tag: 5555, size: vhRange32("newvsz", 1, 50)})
		vhAssert(err == nil, "update one map")
		if err == nil && old != nil {
			vhDispose(storage, old)
		}
		(*tmodel)[i].val = 5555
	}
	vhCheckMap(m, addr, model, "source after mutation of one map")
	vhCheckMap(cp, vhAddr(2), cmodel, "copy after mutation of one map")
	vhReach("mapcopy-done")
}
