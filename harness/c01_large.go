//go:build verif

package atree

// Elements too large to be stored inline (the slab holds a reference, the
// value lives in a slab of its own) as part of the STATE: inserted at any
// position of any valid one- or two-leaf array, then read, overwritten (the old
// value's reference is handed back and resolves), removed, or released by a
// bulk pop; a second oversize element may join it. After disposing of what was
// handed back storage holds exactly the reachable slabs; after the pop exactly
// the empty root.
//
//vh:prop C01 C09 C06 C03
//vh:param leaves 1 2
func VH_C01_LargeElements() {
	vhSetThreshold(256)
	logst := &vLogStorage{BasicSlabStorage: vhNewBasicStorage()}
	storage := logst.BasicSlabStorage
	addr := vhAddr(1)
	counts := []int{2}
	if vhChoose("leaves", vhParam("leaves", 1)) == 1 {
		counts = []int{2, 2}
	}
	a, model := vhBuildArray(logst, addr, counts)
	rootID := a.SlabID()
	pos := vhChoose("pos", len(model)+1)
	big := vhRange32("bigsz", 1, 65536)
	snap := vhSnapshotAll(logst)
	err := a.Insert(uint64(pos), vElem{tag: 5555, size: big})
	vhAssert(err == nil, "insert large element: no error")
	if err != nil {
		return
	}
	model = vhInsertModel(model, pos, 5555)
	vhCheckDirtyMarks(logst, snap, "insert large element: dirty marks")
	vhCheckArray(a, addr, model, "after insert")
	vhAssert(vhStorageSlabCount(storage) == vhArraySlabCount(storage, rootID), "after insert: no leaked or dangling slabs")
	if big > maxInlineArrayElementSize {
		vhReach("witness: element stored in a slab of its own")
	}
	snap = vhSnapshotAll(logst)
	switch vhChoose("then", 4) {
	case 0: // overwrite
		old, err := a.Set(uint64(pos), vElem{tag: 6666, size: vhRange32("newsz", 1, 65536)})
		vhAssert(err == nil, "overwrite large element: no error")
		if err != nil {
			return
		}
		ov, verr := old.StoredValue(storage)
		vhAssert(verr == nil && vhTagOf(ov) == 5555, "overwrite: the previous element handed back resolves")
		vhDispose(storage, old)
		model[pos] = 6666
	case 1: // remove
		old, err := a.Remove(uint64(pos))
		vhAssert(err == nil, "remove large element: no error")
		if err != nil {
			return
		}
		ov, verr := old.StoredValue(storage)
		vhAssert(verr == nil && vhTagOf(ov) == 5555, "remove: the element handed back resolves")
		vhDispose(storage, old)
		model = vhRemoveModel(model, pos)
	case 2: // bulk pop: reverse order, everything released
		var got []uint64
		err := a.PopIterate(func(s Storable) {
			v, _ := s.StoredValue(storage)
			got = append(got, vhTagOf(v))
			vhDispose(storage, s)
		})
		vhAssert(err == nil, "pop: no error")
		vhAssert(len(got) == len(model), "pop: every element handed back once")
		if len(got) == len(model) {
			for i := range got {
				vhAssert(got[i] == model[len(model)-1-i], "pop: reverse order")
			}
		}
		model = nil
		vhAssert(vhStorageSlabCount(storage) == 1, "pop: only the empty root remains")
	case 3: // a second oversize element next to it
		err := a.Insert(uint64(pos), vElem{tag: 7777, size: vhRange32("bigsz2", 1, 65536)})
		vhAssert(err == nil, "second large element: no error")
		model = vhInsertModel(model, pos, 7777)
	}
	vhAssert(a.SlabID() == rootID, "root id stable")
	vhCheckDirtyMarks(logst, snap, "dirty marks")
	vhCheckArray(a, addr, model, "post")
	vhAssert(vhStorageSlabCount(storage) == vhArraySlabCount(storage, rootID), "no leaked or dangling slabs")
	vhReach("large-elements-done")
}
