//go:build verif

package atree

// C12 / C05 / C09: one step of every map operation from explicitly built
// states that contain a collision group (inline or external) next to single
// elements; all digests and sizes symbolic.

// vhBuildGroupMap: root data slab with nsingle single elements and one
// first-level collision group of gsize keys (distinct, ascending second-level
// digests) at position gpos; the group is inline or an external group slab.
func vhBuildGroupMap(storage SlabStorage, addr Address, b *vDigesterBuilder, nsingle, gsize, gpos int, external bool) (*OrderedMap, []vhKV, []int) {
	return vhBuildGroupMapDeep(storage, addr, b, nsingle, gsize, gpos, external, false)
}

// vhGroupMulti: when set, vhBuildGroupMapDeep puts the group and its singles
// into a NON-ROOT leaf, followed by a second leaf of two singles, under an
// index root (operations then run through MapMetaDataSlab).
var vhGroupMulti bool

// vhGroupMixed: with deep, the first-level group holds the nested group AND one
// more member that collides on the first level only (removing that member
// leaves a group whose only entry is itself a group).
var vhGroupMixed bool

// deep: the gsize members share the first AND the second-level digest; they
// sit in a nested inline group (third-level digests ascending) that is the
// only entry of the first-level group.
func vhBuildGroupMapDeep(storage SlabStorage, addr Address, b *vDigesterBuilder, nsingle, gsize, gpos int, external bool, deep bool) (*OrderedMap, []vhKV, []int) {
	listMode := b.levels == 1 // keys colliding on every level sit in an insertion-ordered list
	rootID, _ := storage.GenerateSlabID(addr)
	var kvs []vhKV
	var groupIdx []int
	es := newHkeyElements(0)
	nextID := uint64(1)
	var prev uint64
	first := true
	newSingle := func(level1Parent bool, d0 uint64, prevD1 *uint64, firstInGroup bool) (*singleElement, vKey) {
		k := vhNewKey(nextID)
		if level1Parent {
			k.d[0] = d0
			if !firstInGroup {
				vhAssume(k.d[1] > *prevD1)
			}
			*prevD1 = k.d[1]
		}
		vs := vhRange32("vsz", 1, 32768)
		vhAssume(vs <= maxInlineMapValueSize(k.size))
		val := vElem{tag: 1000 + nextID, size: vs}
		el := &singleElement{key: k, value: val, size: singleElementPrefixSize + k.size + vs}
		kvs = append(kvs, vhKV{key: k, val: val.tag})
		nextID++
		return el, k
	}
	for pos := 0; pos <= nsingle; pos++ {
		if pos == gpos {
			// the group
			d0 := vhU64("gdig")
			if !first {
				vhAssume(d0 > prev)
			}
			first = false
			prev = d0
			var ges elements
			var prevD1 uint64
			if listMode {
				les := &singleElements{level: 1, size: singleElementsPrefixSize}
				for j := 0; j < gsize; j++ {
					var dummy uint64
					el, _ := newSingle(true, d0, &dummy, true)
					groupIdx = append(groupIdx, len(kvs)-1)
					les.elems = append(les.elems, el)
					les.size += el.size
				}
				ges = les
			} else if deep {
				inner := newHkeyElements(2)
				var d1, prevD2 uint64
				for j := 0; j < gsize; j++ {
					k := vhNewKey(nextID)
					k.d[0] = d0
					if j == 0 {
						d1 = k.d[1]
					} else {
						k.d[1] = d1
						vhAssume(k.d[2] > prevD2)
					}
					prevD2 = k.d[2]
					vs := vhRange32("vsz", 1, 32768)
					vhAssume(vs <= maxInlineMapValueSize(k.size))
					val := vElem{tag: 1000 + nextID, size: vs}
					el := &singleElement{key: k, value: val, size: singleElementPrefixSize + k.size + vs}
					kvs = append(kvs, vhKV{key: k, val: val.tag})
					nextID++
					groupIdx = append(groupIdx, len(kvs)-1)
					inner.hkeys = append(inner.hkeys, Digest(k.d[2]))
					inner.elems = append(inner.elems, el)
					inner.size += digestSize + el.size
				}
				ig := &inlineCollisionGroup{elements: inner}
				hes := newHkeyElements(1)
				hes.hkeys = append(hes.hkeys, Digest(d1))
				hes.elems = append(hes.elems, ig)
				hes.size += digestSize + ig.Size()
				if vhGroupMixed {
					// ... next to one more member that collides on the first level only
					pd1 := d1
					el, k := newSingle(true, d0, &pd1, false)
					groupIdx = append(groupIdx, len(kvs)-1)
					hes.hkeys = append(hes.hkeys, Digest(k.d[1]))
					hes.elems = append(hes.elems, el)
					hes.size += digestSize + el.size
				}
				ges = hes
			} else {
				hes := newHkeyElements(1)
				for j := 0; j < gsize; j++ {
					el, k := newSingle(true, d0, &prevD1, j == 0)
					groupIdx = append(groupIdx, len(kvs)-1)
					hes.hkeys = append(hes.hkeys, Digest(k.d[1]))
					hes.elems = append(hes.elems, el)
					hes.size += digestSize + el.size
				}
				ges = hes
			}
			var ge element
			if external {
				gid, _ := storage.GenerateSlabID(addr)
				gslab := &MapDataSlab{
					header:         MapSlabHeader{slabID: gid, size: mapDataSlabPrefixSize + ges.Size(), firstKey: ges.firstKey()},
					elements:       ges,
					anySize:        true,
					collisionGroup: true,
				}
				_ = storage.Store(gid, gslab)
				ge = &externalCollisionGroup{slabID: gid, size: externalCollisionGroupPrefixSize + SlabIDStorable(gid).ByteSize()}
			} else {
				g := &inlineCollisionGroup{elements: ges}
				vhAssume(g.Size() <= maxInlineMapElementSize)
				ge = g
			}
			es.hkeys = append(es.hkeys, Digest(d0))
			es.elems = append(es.elems, ge)
			es.size += digestSize + ge.Size()
		}
		if pos < nsingle {
			var dummy uint64
			el, k := newSingle(false, 0, &dummy, true)
			if !first {
				vhAssume(k.d[0] > prev)
			}
			first = false
			prev = k.d[0]
			es.hkeys = append(es.hkeys, Digest(k.d[0]))
			es.elems = append(es.elems, el)
			es.size += digestSize + el.size
		}
	}
	if vhGroupMulti {
		id1, _ := storage.GenerateSlabID(addr)
		id2, _ := storage.GenerateSlabID(addr)
		leaf1 := &MapDataSlab{
			header:   MapSlabHeader{slabID: id1, size: mapDataSlabPrefixSize + es.size, firstKey: es.firstKey()},
			elements: es,
			next:     id2,
		}
		vhAssume(leaf1.header.size >= minThreshold)
		vhAssume(leaf1.header.size <= maxThreshold)
		es2 := newHkeyElements(0)
		for j := 0; j < 2; j++ {
			var dummy uint64
			el, k := newSingle(false, 0, &dummy, true)
			vhAssume(k.d[0] > prev)
			prev = k.d[0]
			es2.hkeys = append(es2.hkeys, Digest(k.d[0]))
			es2.elems = append(es2.elems, el)
			es2.size += digestSize + el.size
		}
		leaf2 := &MapDataSlab{
			header:   MapSlabHeader{slabID: id2, size: mapDataSlabPrefixSize + es2.size, firstKey: es2.firstKey()},
			elements: es2,
		}
		vhAssume(leaf2.header.size >= minThreshold)
		vhAssume(leaf2.header.size <= maxThreshold)
		mroot := &MapMetaDataSlab{
			header:          MapSlabHeader{slabID: rootID, size: mapMetaDataSlabPrefixSize + 2*mapSlabHeaderSize, firstKey: leaf1.header.firstKey},
			childrenHeaders: []MapSlabHeader{leaf1.header, leaf2.header},
			extraData:       &MapExtraData{TypeInfo: vTypeInfo{id: 42}, Count: uint64(len(kvs)), Seed: 7},
		}
		_ = storage.Store(id1, leaf1)
		_ = storage.Store(id2, leaf2)
		_ = storage.Store(rootID, mroot)
		return &OrderedMap{Storage: storage, root: mroot, digesterBuilder: b}, kvs, groupIdx
	}
	root := &MapDataSlab{
		header:    MapSlabHeader{slabID: rootID, size: mapRootDataSlabPrefixSize + es.size, firstKey: es.firstKey()},
		elements:  es,
		extraData: &MapExtraData{TypeInfo: vTypeInfo{id: 42}, Count: uint64(len(kvs)), Seed: 7},
	}
	vhAssume(root.header.size <= maxThreshold)
	_ = storage.Store(rootID, root)
	return &OrderedMap{Storage: storage, root: root, digesterBuilder: b}, kvs, groupIdx
}

//vh:prop C12 C05 C09 C02 C06 C13 C03
//vh:param singles 2 3
//vh:param gsize 3 3
//vh:param symT 0 1
func VH_C12_GroupStep() {
	vhThreshold()
	logst := &vLogStorage{BasicSlabStorage: vhNewBasicStorage()}
	storage := logst
	addr := vhAddr(1)
	b := &vDigesterBuilder{levels: 4}
	if vhChoose("listmode", 2) == 1 {
		b.levels = 1
	}
	op := vhChoose("op", 6)
	maxSingles := vhParam("singles", 3)
	if op == 3 {
		// removal from a group can GROW its leaf (an external group collapses
		// into its last, possibly large, element): allow a leaf that is full
		maxSingles++
	}
	nsingle := vhChoose("nsingle", maxSingles+1)
	gsize := 2 + vhChoose("gsize", vhParam("gsize", 2)-1)
	gpos := vhChoose("gpos", nsingle+1)
	external := vhChoose("external", 2) == 1
	deep := b.levels > 1 && vhChoose("deep", 2) == 1
	// the group's leaf is the root, or (for the operations on the group itself)
	// a non-root leaf under an index root
	vhGroupMulti = (op == 3 || (op >= 1 && op <= 2 && nsingle <= 1)) && vhChoose("multi", 2) == 1
	mixed := deep && op >= 1 && op <= 3 && vhChoose("mixed", 2) == 1
	vhGroupMixed = mixed
	m, model, gidx := vhBuildGroupMapDeep(storage, addr, b, nsingle, gsize, gpos, external, deep)
	vhGroupMulti = false
	vhGroupMixed = false
	rootID := m.SlabID()
	snap := vhSnapshotAll(logst)
	gd0 := model[gidx[0]].key.d[0]
	// entries the collision limit counts for the group's first-level digest
	entries := gsize
	if deep {
		entries = 1
		if mixed {
			entries = 2
		}
	}
	switch op {
	case 0: // lookup of an absent key that collides with the group at the first level
		k := vhNewKey(9999)
		k.d[0] = gd0
		_, err := m.Get(vhCompare, vhHip, k)
		vhAssert(vhIsKeyNotFound(err), "absent colliding key: key-not-found")
	case 1: // insert a new key into the group (any second-level digest)
		// with ANY collision limit: refused exactly when the first-level digest
		// is already shared by more than limit entries, and then nothing changes
		limit := vhRange32("limit", 0, 255)
		maxCollisionLimitPerDigest = limit
		k := vhNewKey(9999)
		k.d[0] = gd0
		old, err := m.Set(vhCompare, vhHip, k, vElem{tag: 5555, size: vhRange32("newvsz", 1, 300)})
		if uint32(entries-1) >= limit {
			vhAssert(err != nil, "insert into group at the limit: refused")
			vhAssert(vhIsCollisionLimit(err), "insert into group at the limit: collision-limit error")
			vhCheckMap(m, addr, model, "after refusal")
			vhReach("group-step-done")
			return
		}
		vhAssert(err == nil, "insert into group: no error")
		if err != nil {
			return
		}
		vhAssert(old == nil, "insert into group: no previous value")
		model = append(model, vhKV{key: k, val: 5555})
	case 2: // update a group member with a value of any size
		i := gidx[vhChoose("member", len(gidx))]
		old, err := m.Set(vhCompare, vhHip, model[i].key, vElem{tag: 5555, size: vhRange32("newvsz", 1, 300)})
		vhAssert(err == nil, "update group member: always accepted")
		if err != nil {
			return
		}
		vhAssert(old != nil, "update group member: previous value returned")
		if old != nil {
			ov, _ := old.StoredValue(storage)
			vhAssert(vhTagOf(ov) == model[i].val, "update group member: previous value")
			vhDispose(storage, old)
		}
		model[i].val = 5555
	case 3: // remove a group member (group shrinks, possibly collapses to a single element)
		i := gidx[vhChoose("member", len(gidx))]
		ks, vs, err := m.Remove(vhCompare, vhHip, model[i].key)
		vhAssert(err == nil, "remove group member: no error")
		if err != nil {
			return
		}
		kid, _ := vhKeyID(ks, storage)
		vhAssert(kid == model[i].key.id, "remove group member: key")
		rv, _ := vs.StoredValue(storage)
		vhAssert(vhTagOf(rv) == model[i].val, "remove group member: value")
		vhDispose(storage, ks)
		vhDispose(storage, vs)
		model = append(append([]vhKV{}, model[:i]...), model[i+1:]...)
	case 4: // insert a non-colliding key (any digest)
		k := vhNewKey(9999)
		vhAssume(k.d[0] != gd0)
		old, err := m.Set(vhCompare, vhHip, k, vElem{tag: 5555, size: vhRange32("newvsz", 1, 300)})
		vhAssert(err == nil, "insert: no error")
		if err != nil {
			return
		}
		if old != nil {
			return // collided with a single element's key id? impossible: fresh id
		}
		model = append(model, vhKV{key: k, val: 5555})
	case 5: // remove a single element
		if nsingle == 0 {
			return
		}
		// pick a model entry that is not in the group
		var singles []int
		for i := range model {
			in := false
			for _, g := range gidx {
				if g == i {
					in = true
				}
			}
			if !in {
				singles = append(singles, i)
			}
		}
		i := singles[vhChoose("single", len(singles))]
		ks, vs, err := m.Remove(vhCompare, vhHip, model[i].key)
		vhAssert(err == nil, "remove single: no error")
		if err != nil {
			return
		}
		vhDispose(storage, ks)
		vhDispose(storage, vs)
		model = append(append([]vhKV{}, model[:i]...), model[i+1:]...)
	}
	vhAssert(m.SlabID() == rootID, "root id stable")
	vhCheckDirtyMarks(logst, snap, "dirty marks")
	vhCheckMap(m, addr, model, "post")
	vhAssert(vhStorageSlabCount(logst.BasicSlabStorage) == vhMapSlabCount(storage, rootID), "no leaked or dangling slabs")
	// fully colliding keys enumerate in insertion order (C13): in list mode the
	// group members must appear in model order
	if b.levels == 1 {
		keys, _ := vhCollectMap("iterate", m.IterateReadOnly)
		var wantGroup []uint64
		for _, kv := range model {
			if kv.key.d[0] == gd0 {
				wantGroup = append(wantGroup, kv.key.id)
			}
		}
		var gotGroup []uint64
		for _, id := range keys {
			for _, w := range wantGroup {
				if w == id {
					gotGroup = append(gotGroup, id)
				}
			}
		}
		vhSameSeq(gotGroup, wantGroup, "fully colliding keys enumerate in insertion order")
	}
	vhReach("group-step-done")
}
