//go:build verif

package atree

// C01: one inductive step of every array operation from any valid bounded tree.

func vhArrayShape() []int {
	maxLeaves := vhParam("leaves", 3)
	maxPerLeaf := vhParam("perleaf", 4)
	k := 1 + vhChoose("leaves", maxLeaves)
	counts := make([]int, k)
	for i := range counts {
		if k == 1 {
			counts[i] = vhChoose("cnt", maxPerLeaf+1)
		} else {
			counts[i] = 2 + vhChoose("cnt", maxPerLeaf-1)
		}
	}
	return counts
}

// vhDispose releases every slab behind a storable handed back by the library
// (the caller's duty under C09): the referenced slab, the slabs of a whole
// container tree, and whatever its elements reference in turn.
func vhDispose(storage SlabStorage, s Storable) {
	s = unwrapStorable(s)
	switch x := s.(type) {
	case SlabIDStorable:
		vhDisposeSlab(storage, SlabID(x))
	case *ArrayDataSlab:
		for _, c := range x.ChildStorables() {
			vhDispose(storage, c)
		}
	case *MapDataSlab:
		for _, c := range x.ChildStorables() {
			vhDispose(storage, c)
		}
	}
}

func vhDisposeSlab(storage SlabStorage, id SlabID) {
	slab, ok, _ := storage.Retrieve(id)
	if !ok {
		return
	}
	switch x := slab.(type) {
	case *ArrayMetaDataSlab:
		for _, h := range x.childrenHeaders {
			vhDisposeSlab(storage, h.slabID)
		}
	case *MapMetaDataSlab:
		for _, h := range x.childrenHeaders {
			vhDisposeSlab(storage, h.slabID)
		}
	default:
		for _, c := range slab.ChildStorables() {
			vhDispose(storage, c)
		}
	}
	_ = storage.Remove(id)
}

//vh:prop C01 C05 C09 C06 C03
//vh:param leaves 2 3
//vh:param perleaf 3 4
//vh:param symT 1 1
func VH_C01_ArrayStep() {
	vhThreshold()
	logst := &vLogStorage{BasicSlabStorage: vhNewBasicStorage()}
	storage := logst.BasicSlabStorage
	addr := vhAddr(1)
	counts := vhArrayShape()
	a, model := vhBuildArray(logst, addr, counts)
	rootID := a.SlabID()
	snap := vhSnapshotAll(logst)
	n := len(model)
	newTag := uint64(7)
	newSz := vhRange32("newsz", 1, 65536)
	newElem := vElem{tag: newTag, size: newSz}

	op := vhChoose("op", 10)
	if op == 9 {
		// type change: observable through Type(), persisted with the root, content untouched
		vhAssert(vhTic(a.Type(), vTypeInfo{id: 42}), "type before")
		err := a.SetType(vTypeInfo{id: 43})
		vhAssert(err == nil, "set type: no error")
		vhAssert(vhTic(a.Type(), vTypeInfo{id: 43}), "type after")
		vhAssert(logst.stored[rootID], "type change recorded as dirty")
		b, err := NewArrayWithRootID(logst, rootID)
		vhAssert(err == nil && vhTic(b.Type(), vTypeInfo{id: 43}), "type visible after reopen")
		vhAssert(a.Count() == uint64(n), "type change keeps the content")
		vhReach("step-done")
		return
	}
	if op >= 5 {
		// out-of-range requests (any 64-bit index) fail like on a plain sequence and change nothing
		i := vhU64("badidx")
		var err error
		switch op {
		case 5:
			vhAssume(i >= uint64(n))
			_, err = a.Get(i)
		case 6:
			vhAssume(i >= uint64(n))
			_, err = a.Set(i, newElem)
		case 7:
			vhAssume(i > uint64(n))
			err = a.Insert(i, newElem)
		case 8:
			vhAssume(i >= uint64(n))
			_, err = a.Remove(i)
		}
		vhAssert(err != nil, "out-of-range request fails")
		var oob *IndexOutOfBoundsError
		vhAssert(errorsAs(err, &oob), "out-of-range request reports index out of bounds")
		vhCheckArray(a, addr, model, "after out-of-range request")
		vhAssert(vhStorageSlabCount(storage) == vhArraySlabCount(storage, rootID), "out-of-range request leaks nothing")
		vhReach("step-done")
		return
	}
	switch op {
	case 0: // Get
		i := vhChoose("idx", n+1)
		if i == n {
			return
		}
		v, err := a.Get(uint64(i))
		vhAssert(err == nil, "get: in range never fails")
		if err == nil {
			vhAssert(vhTagOf(v) == model[i], "get: value")
		}
	case 1: // Set
		i := vhChoose("idx", n+1)
		if i == n {
			return
		}
		old, err := a.Set(uint64(i), newElem)
		vhAssert(err == nil, "set: in range never fails")
		if err != nil {
			return
		}
		ov, _ := old.StoredValue(storage)
		vhAssert(vhTagOf(ov) == model[i], "set: previous element")
		vhDispose(storage, old)
		model[i] = newTag
	case 2: // Insert
		i := vhChoose("idx", n+1)
		err := a.Insert(uint64(i), newElem)
		vhAssert(err == nil, "insert: in range never fails")
		if err != nil {
			return
		}
		model = vhInsertModel(model, i, newTag)
	case 3: // Append
		err := a.Append(newElem)
		vhAssert(err == nil, "append: never fails")
		if err != nil {
			return
		}
		model = vhInsertModel(model, n, newTag)
	case 4: // Remove
		i := vhChoose("idx", n+1)
		if i == n {
			return
		}
		old, err := a.Remove(uint64(i))
		vhAssert(err == nil, "remove: in range never fails")
		if err != nil {
			return
		}
		ov, _ := old.StoredValue(storage)
		vhAssert(vhTagOf(ov) == model[i], "remove: removed element")
		vhDispose(storage, old)
		model = vhRemoveModel(model, i)
	}
	vhAssert(a.SlabID() == rootID, "root id stable")
	vhCheckDirtyMarks(logst, snap, "dirty marks")
	vhCheckArray(a, addr, model, "post")
	// reopen by root id
	b, err := NewArrayWithRootID(logst, rootID)
	vhAssert(err == nil, "reopen by root id")
	if err == nil {
		vhCheckArray(b, addr, model, "reopened")
	}
	// C09: storage holds exactly the reachable slabs
	vhAssert(vhStorageSlabCount(storage) == vhArraySlabCount(storage, rootID), "no leaked or dangling slabs")
	vhReach("step-done")
}
