//go:build verif

package atree

// C19: decoding untrusted bytes never panics, hangs or allocates out of
// proportion to the input. (a) fully symbolic buffers for the binary-coded
// slab kinds (index slabs, both versions) and the raw header queries;
// (b) every single-byte substitution (symbolic value) and every truncation
// of valid registers of every CBOR-bearing slab kind, decoded by the real
// decoders over the real CBOR library.

func vhExerciseSlab(s Slab) {
	// size and child-reference accessors of a decoded slab are panic-free
	_ = s.ByteSize()
	_ = s.ChildStorables()
	_ = s.SlabID()
}

//vh:prop C19 C07
//vh:init cbor
//vh:param maxlen 40 66
//vh:mode bv
func VH_C19_SymbolicBuffer() {
	maxlen := vhParam("maxlen", 40)
	n := vhChoose("len", maxlen+1)
	data := make([]byte, n)
	for i := range data {
		data[i] = vhU8("b")
	}
	vhSetAllocLimit(n + 1)
	id := vhSlabID(1, 1)
	switch vhChoose("entry", 3) {
	case 0: // header queries on arbitrary bytes
		_, _ = IsRootOfAnObject(data)
		_, _ = HasPointers(data)
		_, _ = HasSizeLimit(data)
		_, _ = NewSlabIDFromRawBytes(data)
	case 1, 2: // index slabs (array / map), format version 0 or 1, not a root (root extra data is CBOR: see mutation harness)
		if n < 2 {
			_, err := DecodeSlab(id, data, vhRealDecMode(), vhDecodeStorableB, vhDecodeTypeInfo)
			vhAssert(err != nil, "short input rejected")
			return
		}
		vhAssume(data[0]>>4 <= 1)
		vhAssume(data[0]&0x0f == 0)
		if vhChoose("kind", 2) == 0 {
			vhAssume(data[1] == maskArrayMeta)
		} else {
			vhAssume(data[1] == maskMapMeta)
		}
		slab, err := DecodeSlab(id, data, vhRealDecMode(), vhDecodeStorableB, vhDecodeTypeInfo)
		if err == nil {
			vhAssert(slab != nil, "success returns a slab")
			vhExerciseSlab(slab)
			// canonical: a version-1 register that decodes re-encodes to the same bytes (C07);
			// registers produced by the library carry the owner address of their identifier
			ownAddr := true
			for i := 0; i < SlabAddressLength && 2+i < n; i++ {
				ownAddr = vhAll(ownAddr, data[2+i] == id.address[i])
			}
			if data[0]>>4 == 1 && ownAddr {
				out, eerr := EncodeSlab(slab, vhRealEncMode())
				vhAssert(eerr == nil, "decoded index slab re-encodes")
				if eerr == nil {
					vhAssert(len(out) == len(data), "re-encoded length")
					if len(out) == len(data) {
						same := true
						for i := range out {
							same = vhAll(same, out[i] == data[i])
						}
						vhAssert(same, "decode then encode is the identity on index-slab registers")
					}
				}
			}
			vhReach("decoded")
		}
	}
	vhReach("buffer-done")
}

// vhSampleRegisters builds small containers covering every CBOR-bearing slab
// kind and returns their registers.
func vhSampleRegisters() [][]byte {
	vhSetThreshold(256)
	storage := vhNewByteStorage()
	addr := vhAddr(1)
	// array: scalars of two widths, wrapped scalar, large-value reference, inlined child, then enough to split
	a, _ := NewArray(storage, addr, vTypeInfo{id: 42})
	_ = a.Append(vU64(7))
	_ = a.Append(vU64(70000))
	_ = a.Append(vSomeValue{inner: vU64(300)})
	_ = a.Append(vBlob{n: 150})
	c, _ := NewArray(storage, addr, vTypeInfo{id: 43})
	_ = c.Append(vU64(9))
	_ = a.Append(c)
	for i := 0; i < 4; i++ {
		_ = a.Append(vBlob{n: 100})
	}
	// map: single elements, an inline collision group, an external collision group, an inlined child map
	b := &vDigesterBuilder{levels: 4, known: map[uint64][4]uint64{}}
	m, _ := NewMap(storage, addr, b, vTypeInfo{id: 44})
	put := func(val uint64, d0, d1 uint64, v Value) {
		k := vBKey{val: val, d: [4]uint64{d0, d1, val, val}}
		b.known[val] = k.d
		_, _ = m.Set(vhCompareB, vhHip, k, v)
	}
	put(1, 10, 1, vU64(5))
	put(2, 20, 1, vU64(6))
	put(3, 20, 2, vU64(7)) // inline group with key 2
	put(4, 30, 1, vBlob{n: 60})
	put(5, 30, 2, vBlob{n: 60}) // external group with key 4
	cm, _ := NewMap(storage, addr, &vDigesterBuilder{levels: 4, known: b.known}, vTypeInfo{id: 45})
	put(6, 40, 1, cm)
	// array whose inlined children SHARE type information (a type table with
	// references into it) and a compact-map shape (shared keys): two inlined
	// plain maps of one type, two composite maps of one shape
	t, _ := NewArray(storage, addr, vTypeInfo{id: 46})
	for i := 0; i < 2; i++ {
		pm, _ := NewMap(storage, addr, NewDefaultDigesterBuilder(), vTypeInfo{id: 47})
		_, _ = pm.Set(vhCompareBK, vhHipB, vBKey{val: 100}, vU64(uint64(i)))
		_ = t.Append(pm)
	}
	for i := 0; i < 2; i++ {
		cm, _ := NewMap(storage, addr, NewDefaultDigesterBuilder(), vCompositeTypeInfo{id: 7})
		_, _ = cm.Set(vhCompareBK, vhHipB, vBKey{val: 100}, vU64(uint64(i)))
		_, _ = cm.Set(vhCompareBK, vhHipB, vBKey{val: 101}, vU64(uint64(i+5)))
		_ = t.Append(cm)
	}
	var regs [][]byte
	ids := make([]SlabID, 0, len(storage.Slabs))
	for id := range storage.Slabs {
		ids = append(ids, id)
	}
	// deterministic order
	for i := 1; i < len(ids); i++ {
		for j := i; j > 0 && ids[j-1].Compare(ids[j]) > 0; j-- {
			ids[j-1], ids[j] = ids[j], ids[j-1]
		}
	}
	for _, id := range ids {
		data, err := EncodeSlab(storage.Slabs[id], storage.cborEncMode)
		if err == nil {
			regs = append(regs, data)
		}
	}
	// the same slab kinds in the version-0 framing (flat containers: root and
	// non-root data slabs with sibling links, index slabs, collision groups)
	an, mn := 3, 1
	if vhParam("legacy", 1) > 1 {
		an, mn = 9, 3
	}
	for _, legacy := range []*BasicSlabStorage{vhLegacyContainers(an, false, true), vhLegacyContainers(mn, true, true)} {
		lids := make([]SlabID, 0, len(legacy.Slabs))
		for id := range legacy.Slabs {
			lids = append(lids, id)
		}
		for i := 1; i < len(lids); i++ {
			for j := i; j > 0 && lids[j-1].Compare(lids[j]) > 0; j-- {
				lids[j-1], lids[j] = lids[j], lids[j-1]
			}
		}
		for _, id := range lids {
			v1, err := EncodeSlab(legacy.Slabs[id], legacy.cborEncMode)
			if err != nil {
				continue
			}
			if v0 := vhEncodeV0(legacy.Slabs[id], v1[1]); v0 != nil {
				regs = append(regs, v0)
			}
		}
	}
	return regs
}

//vh:prop C19
//vh:init cbor
//vh:param trunc 0 2
//vh:param legacy 1 2
func VH_C19_MutatedRegisters() {
	regs := vhSampleRegisters()
	r := vhChoose("register", len(regs))
	orig := regs[r]
	data := append([]byte(nil), orig...)
	n := len(data)
	mode := vhChoose("mode", 2+vhParam("trunc", 0))
	switch mode {
	case 0: // substitute one byte by an arbitrary value
		p := vhChoose("pos", n)
		data[p] = vhU8("b")
	case 1: // truncate
		t := vhChoose("cut", n)
		data = data[:t]
	case 3: // substitute two adjacent bytes by arbitrary values (coordinated edits, e.g. a head and its length)
		if n < 2 {
			return
		}
		p := vhChoose("pos", n-1)
		data[p] = vhU8("b")
		data[p+1] = vhU8("b")
	case 2: // substitute, then truncate behind the substituted byte
		p := vhChoose("pos", n)
		data[p] = vhU8("b")
		t := p + 1 + vhChoose("cut", n-p)
		data = data[:t]
	}
	vhSetAllocLimit(n + 1)
	slab, err := DecodeSlab(vhSlabID(1, 1), data, vhRealDecMode(), vhDecodeStorableB, vhDecodeTypeInfo)
	if err == nil {
		vhAssert(slab != nil, "success returns a slab")
		vhExerciseSlab(slab)
		vhReach("decoded")
	} else {
		vhReach("rejected")
	}
}

// vCKey: comparable key storable (compact-map keys).
type vCKey uint64

var _ ComparableStorable = vCKey(0)

func (k vCKey) Encode(enc *Encoder) error              { return enc.CBOR.EncodeUint64(uint64(k)) }
func (k vCKey) ByteSize() uint32                       { return GetUintCBORSize(uint64(k)) }
func (k vCKey) StoredValue(SlabStorage) (Value, error) { return vU64(k), nil }
func (k vCKey) ChildStorables() []Storable             { return nil }
func (k vCKey) CanCopyNonRefSimple() bool              { return true }
func (k vCKey) CopyNonRefSimple() (Storable, error)    { return k, nil }
func (k vCKey) Equal(o Storable) bool                  { x, ok := o.(vCKey); return ok && x == k }
func (k vCKey) Less(o Storable) bool                   { x, ok := o.(vCKey); return ok && k < x }
func (k vCKey) ID() string                             { return "k" }

// The inlined-container decoders with symbolic semantic fields: every
// combination the extra-data decoders can hand them (key and digest lists of
// equal length, ANY recorded count, any extra-data index, any element count),
// encoded by the real CBOR encoder so the input is always well-formed CBOR.
//
//vh:prop C19
//vh:init cbor
func VH_C19_InlinedDecoders() {
	em := vhRealEncMode()
	dm := vhRealDecMode()
	// extra data list: 0..2 entries
	var extra []ExtraData
	nx := vhChoose("nextra", 3)
	for i := 0; i < nx; i++ {
		switch vhChoose("xkind", 3) {
		case 0:
			extra = append(extra, &ArrayExtraData{TypeInfo: vTypeInfo{id: 1}})
		case 1:
			extra = append(extra, &MapExtraData{TypeInfo: vTypeInfo{id: 2}, Count: vhRange("xcount", 0, 4), Seed: 7})
		case 2:
			nk := vhChoose("nkeys", 3)
			cm := &compactMapExtraData{mapExtraData: &MapExtraData{TypeInfo: vTypeInfo{id: 3}, Count: vhRange("xcount", 0, 4), Seed: 7}}
			for j := 0; j < nk; j++ {
				cm.hkeys = append(cm.hkeys, Digest(10*(j+1)))
				cm.keys = append(cm.keys, vCKey(j+1))
			}
			extra = append(extra, cm)
		}
	}
	// body: [extra data index, slab index bytes, [values...]]
	var buf vhBuf
	enc := NewEncoder(&buf, em)
	outer := uint64(2 + vhChoose("outer", 3))
	_ = enc.CBOR.EncodeArrayHead(outer)
	_ = enc.CBOR.EncodeUint64(vhRange("xindex", 0, 30))
	_ = enc.CBOR.EncodeBytes(make([]byte, 7+vhChoose("idxlen", 2)))
	m := vhChoose("nelems", 4)
	if outer >= 3 {
		_ = enc.CBOR.EncodeArrayHead(uint64(m))
		for i := 0; i < m; i++ {
			_ = enc.CBOR.EncodeUint64(vhRange("elem", 0, 30))
		}
	}
	if outer == 4 {
		_ = enc.CBOR.EncodeUint64(0)
	}
	_ = enc.CBOR.Flush()
	vhSetAllocLimit(len(buf.b) + 8)
	dec := dm.NewByteStreamDecoder(buf.b)
	var s Storable
	var err error
	if vhChoose("decoder", 2) == 0 {
		s, err = DecodeInlinedArrayStorable(dec, vhDecodeStorableB, vhSlabID(1, 1), extra)
	} else {
		s, err = DecodeInlinedCompactMapStorable(dec, vhDecodeStorableB, vhSlabID(1, 1), extra)
	}
	if err == nil {
		vhAssert(s != nil, "success returns a storable")
		_ = s.ByteSize()
		_ = s.ChildStorables()
		vhReach("decoded")
	} else {
		vhReach("rejected")
	}
}

// vhBuf: minimal io.Writer.
type vhBuf struct{ b []byte }

func (w *vhBuf) Write(p []byte) (int, error) {
	w.b = append(w.b, p...)
	return len(p), nil
}

// Fully symbolic SHORT buffers through the CBOR-bearing decoders (array data
// slabs, map data slabs incl. collision-group slabs, storable slabs; any
// version nibble, any flags): every byte string of up to maxlen bytes either
// decodes or is rejected, without panic, and the accessors of a decoded slab
// are panic-free. The real fxamacker/cbor stream decoder is executed on the
// symbolic bytes (no model).
//
//vh:prop C19
//vh:init cbor
//vh:param datalen 5 6
//vh:mode bv
func VH_C19_SymbolicDataBuffer() {
	maxlen := vhParam("datalen", 6)
	n := vhChoose("len", maxlen+1)
	data := make([]byte, n)
	for i := range data {
		data[i] = vhU8("b")
	}
	vhSetAllocLimit(n + 64)
	id := vhSlabID(1, 1)
	if n >= 2 {
		// slab kind: everything except the index slabs (VH_C19_SymbolicBuffer)
		kind := data[1] & 0x1f
		vhAssume(kind != maskArrayMeta)
		vhAssume(kind != maskMapMeta)
	}
	slab, err := DecodeSlab(id, data, vhRealDecMode(), vhDecodeStorableB, vhDecodeTypeInfo)
	if err == nil {
		vhAssert(slab != nil, "success returns a slab")
		vhExerciseSlab(slab)
		vhReach("decoded")
	}
	vhReach("data-buffer-done")
}

// Registers that are well-formed but LIE: every numeric field an encoder copies
// from memory into a register (a map's element count and seed, an array or map
// child entry's count / size / first digest, a sibling link) is replaced by an
// arbitrary value before the real encoder writes the register. The decoders do
// not -- and cannot -- cross-check all of them against the content, so such a
// register may well decode; what the property demands is that decoding and the
// accessors of the slab it returns stay panic-free and allocate in proportion
// to the register, whatever the fields claim.
//
//vh:prop C19
//vh:init cbor
func VH_C19_LyingFields() {
	vhSetThreshold(256)
	storage := vhNewByteStorage()
	addr := vhAddr(1)
	var victim Slab
	switch vhChoose("kind", 4) {
	case 0: // map root data slab: count and seed in the root's extra data
		m, _ := NewMap(storage, addr, NewDefaultDigesterBuilder(), vTypeInfo{id: 44})
		for i := 0; i < 2; i++ {
			_, _ = m.Set(vhCompareBK, vhHipB, vBKey{val: uint64(i + 1)}, vU64(uint64(i)))
		}
		r := m.root.(*MapDataSlab)
		r.extraData.Count = vhU64("count")
		r.extraData.Seed = vhU64("seed")
		victim = r
	case 1: // parent whose inlined child maps (plain, and two composites sharing a shape) carry arbitrary counts
		a, _ := NewArray(storage, addr, vTypeInfo{id: 42})
		pm, _ := NewMap(storage, addr, NewDefaultDigesterBuilder(), vTypeInfo{id: 47})
		_, _ = pm.Set(vhCompareBK, vhHipB, vBKey{val: 100}, vU64(1))
		_ = a.Append(pm)
		var cms []*OrderedMap
		for i := 0; i < 2; i++ {
			cm, _ := NewMap(storage, addr, NewDefaultDigesterBuilder(), vCompositeTypeInfo{id: 7})
			_, _ = cm.Set(vhCompareBK, vhHipB, vBKey{val: 100}, vU64(uint64(i)))
			_, _ = cm.Set(vhCompareBK, vhHipB, vBKey{val: 101}, vU64(uint64(i+5)))
			_ = a.Append(cm)
			cms = append(cms, cm)
		}
		pm.root.(*MapDataSlab).extraData.Count = vhU64("count")
		cms[vhChoose("which", 2)].root.(*MapDataSlab).extraData.Count = vhU64("ccount")
		victim = a.root
	case 2: // array index slab: child counts and sizes
		a, _ := NewArray(storage, addr, vTypeInfo{id: 42})
		for i := 0; i < 6; i++ {
			_ = a.Append(vBlob{n: 97})
		}
		r, ok := a.root.(*ArrayMetaDataSlab)
		vhRequire(ok, "array root is an index slab")
		c := vhChoose("child", len(r.childrenHeaders))
		r.childrenHeaders[c].count = vhU32("ccount")
		r.childrenHeaders[c].size = vhU32("csize")
		victim = r
	case 3: // map index slab: first digests and sizes
		m, _ := NewMap(storage, addr, NewDefaultDigesterBuilder(), vTypeInfo{id: 44})
		for i := 0; i < 6; i++ {
			_, _ = m.Set(vhCompareBK, vhHipB, vBKey{val: uint64(i + 1)}, vBlob{n: 80})
		}
		r, ok := m.root.(*MapMetaDataSlab)
		vhRequire(ok, "map root is an index slab")
		c := vhChoose("child", len(r.childrenHeaders))
		r.childrenHeaders[c].firstKey = Digest(vhU64("fk"))
		r.childrenHeaders[c].size = vhU32("csize")
		victim = r
	}
	data, err := EncodeSlab(victim, storage.cborEncMode)
	if err != nil {
		// an encoder may refuse what it cannot represent (e.g. a child size beyond 16 bits)
		vhReach("lying-not-encodable")
		return
	}
	// "in proportion": a small multiple of the register's length, in elements (a
	// one-byte field can at most ask for a few dozen; what must not happen is a
	// request that grows with the VALUE a field claims)
	vhSetAllocLimit(16*len(data) + 64)
	slab, err := DecodeSlab(victim.SlabID(), data, vhRealDecMode(), vhDecodeStorableB, vhDecodeTypeInfo)
	if err == nil {
		vhAssert(slab != nil, "success returns a slab")
		vhExerciseSlab(slab)
		// ... and the queries a storage makes on an accepted slab
		_, _ = IsRootOfAnObject(data)
		_, _ = HasPointers(data)
		vhReach("lying-decoded")
	} else {
		vhReach("lying-rejected")
	}
}
