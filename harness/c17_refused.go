//go:build verif

package atree

// The copy is offered EXACTLY for single-slab containers of plain values: for
// a container spanning several slabs (any valid two- or three-leaf state) and
// for a single slab holding a reference it is not offered, the single-slab
// query says so, and a caller who asks anyway gets a copy error and nothing
// else: no slab is allocated or changed, the source stays valid with its
// content.
//
//vh:prop C17 C18
func VH_C17_CopyRefused() {
	vhSetThreshold(256)
	logst := &vLogStorage{BasicSlabStorage: vhNewBasicStorage()}
	storage := logst.BasicSlabStorage
	addr := vhAddr(1)
	b := &vDigesterBuilder{levels: 4}
	counts := []int{2, 2}
	if vhChoose("leaves", 2) == 1 {
		counts = []int{2, 2, 2}
	}
	switch vhChoose("kind", 4) {
	case 0: // multi-slab array
		a, model := vhBuildArray(logst, addr, counts)
		before := vhStorageSlabCount(storage)
		logst.writes = 0
		vhAssert(!a.IsWithinSingleSlab(), "multi-slab array: not within a single slab")
		vhAssert(!a.CanCopyNonRefSimple(), "multi-slab array: copy not offered")
		cp, err := a.CopyNonRefSimple(vhAddr(2))
		vhAssert(err != nil && cp == nil, "multi-slab array: a copy asked for anyway is refused")
		vhAssert(vhIsCopyError(err), "multi-slab array: copy error")
		vhAssert(logst.writes == 0 && vhStorageSlabCount(storage) == before, "refused copy stores nothing")
		vhCheckArray(a, addr, model, "source after refused copy")
	case 1: // multi-slab map
		m, model := vhBuildMap(logst, addr, b, counts)
		before := vhStorageSlabCount(storage)
		logst.writes = 0
		vhAssert(!m.IsWithinSingleSlab(), "multi-slab map: not within a single slab")
		vhAssert(!m.CanCopyNonRefSimple(), "multi-slab map: copy not offered")
		cp, err := m.CopyNonRefSimple(vhAddr(2), b)
		vhAssert(err != nil && cp == nil, "multi-slab map: a copy asked for anyway is refused")
		vhAssert(vhIsCopyError(err), "multi-slab map: copy error")
		vhAssert(logst.writes == 0 && vhStorageSlabCount(storage) == before, "refused copy stores nothing")
		vhCheckMap(m, addr, model, "source after refused copy")
	case 2: // single-slab array holding a reference (an element too large to inline)
		a, model := vhBuildArray(logst, addr, []int{2})
		vhAssert(a.Append(vElem{tag: 7, size: vhRange32("bigsz", 1, 400)}) == nil, "setup")
		model = append(model, 7)
		hasRef := vhHasRef(a.root.ChildStorables())
		vhAssert(a.CanCopyNonRefSimple() == (a.IsWithinSingleSlab() && !hasRef), "array: copy offered exactly for a single slab without references")
		if a.CanCopyNonRefSimple() {
			vhReach("copy-offered")
			return
		}
		before := vhStorageSlabCount(storage)
		logst.writes = 0
		cp, err := a.CopyNonRefSimple(vhAddr(2))
		vhAssert(err != nil && cp == nil, "array with a reference: a copy asked for anyway is refused")
		vhAssert(vhIsCopyError(err), "array with a reference: copy error")
		vhAssert(logst.writes == 0 && vhStorageSlabCount(storage) == before, "refused copy stores nothing")
		vhCheckArray(a, addr, model, "source after refused copy")
	case 3: // single-slab map holding a reference (value too large to inline)
		m, model := vhBuildMap(logst, addr, b, []int{2})
		k := vhNewKey(9999)
		_, err := m.Set(vhCompare, vhHip, k, vElem{tag: 7, size: vhRange32("bigsz", 1, 400)})
		vhAssert(err == nil, "setup")
		model = append(model, vhKV{key: k, val: 7})
		hasRef := vhHasRef(m.root.ChildStorables())
		vhAssert(m.CanCopyNonRefSimple() == (m.IsWithinSingleSlab() && !hasRef), "map: copy offered exactly for a single slab without references")
		if m.CanCopyNonRefSimple() {
			vhReach("copy-offered")
			return
		}
		before := vhStorageSlabCount(storage)
		logst.writes = 0
		cp, err := m.CopyNonRefSimple(vhAddr(2), b)
		vhAssert(err != nil && cp == nil, "map with a reference: a copy asked for anyway is refused")
		vhAssert(vhIsCopyError(err), "map with a reference: copy error")
		vhAssert(logst.writes == 0 && vhStorageSlabCount(storage) == before, "refused copy stores nothing")
		vhCheckMap(m, addr, model, "source after refused copy")
	}
	vhReach("copy-refused-done")
}

func vhIsCopyError(err error) bool {
	var e *CopyError
	return errorsAs(err, &e)
}
