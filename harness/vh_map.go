//go:build verif

package atree

import "fmt"

// Map doubles: keys with symbolic digest vectors, harness digester builder,
// comparator and hash-input provider.

type vKey struct {
	id   uint64
	size uint32
	d    [4]uint64
}

var _ Value = vKey{}
var _ Storable = vKey{}

func (k vKey) Storable(storage SlabStorage, addr Address, maxInline uint32) (Storable, error) {
	if k.size <= maxInline {
		return k, nil
	}
	return NewStorableSlab(storage, addr, k, k.size)
}
func (k vKey) Encode(*Encoder) error                  { return nil }
func (k vKey) ByteSize() uint32                       { return k.size }
func (k vKey) StoredValue(SlabStorage) (Value, error) { return k, nil }
func (k vKey) ChildStorables() []Storable             { return nil }
func (k vKey) CanCopyNonRefSimple() bool              { return true }
func (k vKey) CopyNonRefSimple() (Storable, error)    { return k, nil }

type vDigester struct {
	d      [4]uint64
	levels uint
}

func (d *vDigester) DigestPrefix(level uint) ([]Digest, error) {
	if level > d.levels {
		return nil, fmt.Errorf("level")
	}
	var p []Digest
	for i := uint(0); i < level; i++ {
		p = append(p, Digest(d.d[i]))
	}
	return p, nil
}
func (d *vDigester) Digest(level uint) (Digest, error) {
	if level >= d.levels {
		return 0, fmt.Errorf("level")
	}
	return Digest(d.d[level]), nil
}
func (d *vDigester) Reset()       {}
func (d *vDigester) Levels() uint { return d.levels }

type vDigesterBuilder struct {
	levels uint
	// fault injection: fail the k-th call (1-based); 0 = never
	failAt int
	calls  int
	// digests of byte-level keys by their stored value (keys are re-hashed from storage)
	known map[uint64][4]uint64
}

var _ DigesterBuilder = &vDigesterBuilder{}

func (b *vDigesterBuilder) SetSeed(uint64, uint64) {}
func (b *vDigesterBuilder) Digest(hip HashInputProvider, v Value) (Digester, error) {
	b.calls++
	if b.failAt != 0 && b.calls == b.failAt {
		return nil, fmt.Errorf("injected digester failure")
	}
	if _, err := hip(v, nil); err != nil {
		return nil, err
	}
	switch k := v.(type) {
	case vKey:
		return &vDigester{d: k.d, levels: b.levels}, nil
	case vBKey:
		return &vDigester{d: k.d, levels: b.levels}, nil
	case vBlobKey:
		return &vDigester{d: k.d, levels: b.levels}, nil
	case vBlob:
		d, ok := b.known[uint64(1<<32)+uint64(k.n)]
		if !ok {
			return nil, fmt.Errorf("unknown byte-level blob key %d", k.n)
		}
		return &vDigester{d: d, levels: b.levels}, nil
	case vU64:
		d, ok := b.known[uint64(k)]
		if !ok {
			return nil, fmt.Errorf("unknown byte-level key %d", uint64(k))
		}
		return &vDigester{d: d, levels: b.levels}, nil
	}
	return nil, fmt.Errorf("unexpected key type %T", v)
}

func vhKeyID(s Storable, storage SlabStorage) (uint64, bool) {
	switch s := s.(type) {
	case vKey:
		return s.id, true
	case SlabIDStorable:
		v, err := s.StoredValue(storage)
		if err != nil {
			return 0, false
		}
		k, ok := v.(vKey)
		return k.id, ok
	}
	return 0, false
}

func vhCompare(storage SlabStorage, v Value, s Storable) (bool, error) {
	k, ok := v.(vKey)
	if !ok {
		return false, fmt.Errorf("unexpected key value %T", v)
	}
	id, ok := vhKeyID(s, storage)
	if !ok {
		return false, fmt.Errorf("unexpected key storable %T", s)
	}
	return k.id == id, nil
}

// vhNewKey creates a key with fresh symbolic digests and a size within the
// inline key limit.
func vhNewKey(id uint64) vKey {
	k := vKey{id: id}
	k.size = vhRange32("ksz", 1, 32768)
	vhAssume(k.size <= maxInlineMapKeySize)
	for i := range k.d {
		k.d[i] = vhU64("dig")
	}
	return k
}

type vhKV struct {
	key vKey
	val uint64 // tag of value
}

// vhBuildMap constructs a map directly: leaves[i] keys per leaf, each a
// single element; level-0 digests strictly ascending across the whole map.
// One leaf => root data slab; several => root index slab over non-root leaves.
func vhBuildMap(storage SlabStorage, addr Address, b *vDigesterBuilder, counts []int) (*OrderedMap, []vhKV) {
	rootID, _ := storage.GenerateSlabID(addr)
	var kvs []vhKV
	nextID := uint64(1)
	var prev uint64
	first := true
	mkElems := func(n int) *hkeyElements {
		es := newHkeyElements(0)
		for i := 0; i < n; i++ {
			k := vhNewKey(nextID)
			if !first {
				vhAssume(k.d[0] > prev)
			}
			first = false
			prev = k.d[0]
			vs := vhRange32("vsz", 1, 32768)
			vhAssume(vs <= maxInlineMapValueSize(k.size))
			val := vElem{tag: 1000 + nextID, size: vs}
			el := &singleElement{key: k, value: val, size: singleElementPrefixSize + k.size + vs}
			es.hkeys = append(es.hkeys, Digest(k.d[0]))
			es.elems = append(es.elems, el)
			es.size += digestSize + el.size
			kvs = append(kvs, vhKV{key: k, val: val.tag})
			nextID++
		}
		return es
	}
	total := 0
	for _, c := range counts {
		total += c
	}
	extra := &MapExtraData{TypeInfo: vTypeInfo{id: 42}, Count: uint64(total), Seed: 7}
	if len(counts) == 1 {
		es := mkElems(counts[0])
		root := &MapDataSlab{
			header:    MapSlabHeader{slabID: rootID, size: mapRootDataSlabPrefixSize + es.size, firstKey: es.firstKey()},
			elements:  es,
			extraData: extra,
		}
		vhAssume(root.header.size <= maxThreshold)
		_ = storage.Store(rootID, root)
		return &OrderedMap{Storage: storage, root: root, digesterBuilder: b}, kvs
	}
	root := &MapMetaDataSlab{
		header:    MapSlabHeader{slabID: rootID, size: mapMetaDataSlabPrefixSize + mapSlabHeaderSize*uint32(len(counts))},
		extraData: extra,
	}
	var leaves []*MapDataSlab
	for _, c := range counts {
		id, _ := storage.GenerateSlabID(addr)
		es := mkElems(c)
		leaf := &MapDataSlab{
			header:   MapSlabHeader{slabID: id, size: mapDataSlabPrefixSize + es.size, firstKey: es.firstKey()},
			elements: es,
		}
		vhAssume(leaf.header.size >= minThreshold)
		vhAssume(leaf.header.size <= maxThreshold)
		if n := len(leaves); n > 0 {
			leaves[n-1].next = id
		}
		leaves = append(leaves, leaf)
		root.childrenHeaders = append(root.childrenHeaders, leaf.header)
	}
	root.header.firstKey = root.childrenHeaders[0].firstKey
	for _, l := range leaves {
		_ = storage.Store(l.header.slabID, l)
	}
	_ = storage.Store(rootID, root)
	return &OrderedMap{Storage: storage, root: root, digesterBuilder: b}, kvs
}

// vhCheckMap: structural validity (repository verifier re-hashes every key
// through the digester builder) and dictionary content equal to the model.
// vhCheckGroupSlabs: the library's verifier checks the ELEMENTS of an external
// collision group but not the header of the slab that holds them; that header's
// size is what the slab reports (C06) and what its register is checked against
// after a reload, so it is recomputed here from the elements, and so is the
// first digest.
func vhCheckGroupSlabs(st SlabStorage, what string) {
	var slabs map[SlabID]Slab
	switch x := st.(type) {
	case *BasicSlabStorage:
		slabs = x.Slabs
	case *vLogStorage:
		slabs = x.BasicSlabStorage.Slabs
	default:
		return
	}
	for _, s := range slabs {
		g, ok := s.(*MapDataSlab)
		if !ok || !g.collisionGroup {
			continue
		}
		vhAssert(g.header.size == mapDataSlabPrefixSize+g.elements.Size(), what+": external group slab reports the size of its elements")
		vhAssert(g.header.firstKey == g.elements.firstKey(), what+": external group slab reports its first digest")
		vhAssert(g.anySize && g.extraData == nil, what+": external group slab is an unlimited non-root slab")
	}
}

func vhCheckMap(m *OrderedMap, addr Address, model []vhKV, what string) {
	err := VerifyMap(m, addr, vTypeInfo{id: 42}, vhTic, vhHip, true)
	vhAssert(err == nil, what+": VerifyMap")
	vhCheckGroupSlabs(m.Storage, what)
	vhAssert(m.Count() == uint64(len(model)), what+": count")
	for _, kv := range model {
		v, err := m.Get(vhCompare, vhHip, kv.key)
		vhAssert(err == nil, what+": Get present key")
		if err != nil {
			return
		}
		vhAssert(vhTagOf(v) == kv.val, what+": value")
		has, err := m.Has(vhCompare, vhHip, kv.key)
		vhAssert(err == nil, what+": Has no error")
		vhAssert(has, what+": Has present key")
	}
}

func vhMapSlabCount(storage SlabStorage, id SlabID) int {
	slab, ok, _ := storage.Retrieve(id)
	if !ok {
		vhFail("reachability: dangling reference")
		return 0
	}
	n := 1
	switch s := slab.(type) {
	case *MapMetaDataSlab:
		for _, h := range s.childrenHeaders {
			n += vhMapSlabCount(storage, h.slabID)
		}
	default:
		n += vhAnyRefs(storage, slab.ChildStorables())
	}
	return n
}

// vhAnyRefs counts slabs reachable through references in storables (arrays,
// maps, storable slabs, external collision groups).
func vhAnyRefs(storage SlabStorage, cs []Storable) int {
	n := 0
	for _, c := range cs {
		c = unwrapStorable(c)
		switch c := c.(type) {
		case SlabIDStorable:
			slab, ok, _ := storage.Retrieve(SlabID(c))
			if !ok {
				vhFail("reachability: dangling reference")
				continue
			}
			switch slab.(type) {
			case *ArrayMetaDataSlab, *ArrayDataSlab:
				n += vhArraySlabCount(storage, SlabID(c))
			default:
				n += vhMapSlabCount(storage, SlabID(c))
			}
		case *ArrayDataSlab, *MapDataSlab:
			n += vhAnyRefs(storage, c.ChildStorables())
		}
	}
	return n
}
