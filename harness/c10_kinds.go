//go:build verif

package atree

// C10 (and C11/C06/C09): nested-container histories over every combination of
// parent kind (array / map), child kind (array / map), wrapped or not, with an
// optional grandchild (depth 3). Handles come from insertion or from lookup
// through the parent. Element sizes are symbolic, so children cross the
// inline limit in both directions by solver choice. Maps use the library's
// default digester builder with the real hash functions (keys are concrete),
// because handles obtained through a parent always use it.

type vhNode struct {
	isMap bool
	arr   *Array
	m     *OrderedMap
	vid   ValueID
	n     int // elements added so far (next key / tag)
	count int
	ti    uint64 // current type id
}

func vhNewNode(storage SlabStorage, addr Address, isMap bool, ti uint64) *vhNode {
	nd := &vhNode{isMap: isMap, ti: ti}
	if isMap {
		nd.m, _ = NewMap(storage, addr, NewDefaultDigesterBuilder(), vTypeInfo{id: ti})
		nd.vid = nd.m.ValueID()
	} else {
		nd.arr, _ = NewArray(storage, addr, vTypeInfo{id: ti})
		nd.vid = nd.arr.ValueID()
	}
	return nd
}

func (nd *vhNode) value() Value {
	if nd.isMap {
		return nd.m
	}
	return nd.arr
}

// add appends an element / sets a new key.
func (nd *vhNode) add(v Value) error {
	nd.n++
	nd.count++
	if nd.isMap {
		_, err := nd.m.Set(vhCompareBK, vhHipB, vBKey{val: uint64(nd.n)}, v)
		return err
	}
	return nd.arr.Append(v)
}

// removeFirst removes the oldest remaining element.
func (nd *vhNode) removeFirst(storage SlabStorage, first int) error {
	nd.count--
	if nd.isMap {
		ks, vs, err := nd.m.Remove(vhCompareBK, vhHipB, vBKey{val: uint64(first)})
		if err == nil {
			vhDispose(storage, ks)
			vhDispose(storage, vs)
		}
		return err
	}
	s, err := nd.arr.Remove(0)
	if err == nil {
		vhDispose(storage, s)
	}
	return err
}

func (nd *vhNode) verify(addr Address, ti uint64, what string) {
	var err error
	var cnt uint64
	if nd.isMap {
		err = VerifyMap(nd.m, addr, vTypeInfo{id: ti}, vhTic, vhHipB, true)
		cnt = nd.m.Count()
	} else {
		err = VerifyArray(nd.arr, addr, vTypeInfo{id: ti}, vhTic, vhHipB, true)
		cnt = nd.arr.Count()
	}
	vhAssert(err == nil, what+": structurally valid")
	vhAssert(cnt == uint64(nd.count), what+": count")
}

func (nd *vhNode) setType(ti uint64) error {
	nd.ti = ti
	if nd.isMap {
		return nd.m.SetType(vTypeInfo{id: ti})
	}
	return nd.arr.SetType(vTypeInfo{id: ti})
}

func (nd *vhNode) typeID() uint64 {
	var t TypeInfo
	if nd.isMap {
		t = nd.m.Type()
	} else {
		t = nd.arr.Type()
	}
	if x, ok := t.(vTypeInfo); ok {
		return x.id
	}
	return 0
}

// inlinedSize: the size this container would occupy stored inline, computed
// from its elements (independent of the library's Inlinable); ok=false when it
// spans several slabs and can never be inline.
func (nd *vhNode) inlinedSize() (uint32, bool) {
	if nd.isMap {
		ds, ok := nd.m.root.(*MapDataSlab)
		if !ok {
			return 0, false
		}
		return inlinedMapDataSlabPrefixSize + ds.elements.Size(), true
	}
	ds, ok := nd.arr.root.(*ArrayDataSlab)
	if !ok {
		return 0, false
	}
	sum := uint32(0)
	for _, e := range ds.elements {
		sum += e.ByteSize()
	}
	return inlinedArrayDataSlabPrefixSize + sum, true
}

func (nd *vhNode) inlined() bool {
	if nd.isMap {
		return nd.m.Inlined()
	}
	return nd.arr.Inlined()
}

// lookup re-obtains the child (position/key 1-based) through the parent.
func (nd *vhNode) lookup(pos int) (Value, error) {
	if nd.isMap {
		return nd.m.Get(vhCompareBK, vhHipB, vBKey{val: uint64(pos)})
	}
	return nd.arr.Get(uint64(pos - 1))
}

func vhAsNode(v Value, isMap bool) *vhNode {
	u, _ := unwrapValue(v)
	nd := &vhNode{isMap: isMap}
	if isMap {
		m, ok := u.(*OrderedMap)
		if !ok {
			return nil
		}
		nd.m, nd.vid = m, m.ValueID()
	} else {
		a, ok := u.(*Array)
		if !ok {
			return nil
		}
		nd.arr, nd.vid = a, a.ValueID()
	}
	return nd
}

// vhStaleGrandOp: a grandchild mutation in the state of known finding F5 (its
// parent container was restructured through a different handle than the one
// that attached it). Failures here carry their own label so that they are
// matched as the known finding and nothing else is.
func vhStaleGrandOp(err error, visible bool) {
	vhAssert(err == nil, "alias-stale-index: grandchild mutation after its parent was restructured through another handle")
	if err == nil {
		vhAssert(visible, "alias-stale-index: grandchild mutation visible through the parent")
	}
	vhReach("kinds-done")
}

func vhSeenGrand(parent *vhNode, childPos int, childMap bool, grandKey, grandIdx int) *vhNode {
	pv, err := parent.lookup(childPos)
	if err != nil {
		return nil
	}
	seen := vhAsNode(pv, childMap)
	if seen == nil {
		return nil
	}
	gpos := grandKey
	if !childMap {
		gpos = grandIdx + 1
	}
	gv, err := seen.lookup(gpos)
	if err != nil {
		return nil
	}
	return vhAsNode(gv, false)
}

func seenGrandCount(parent *vhNode, childPos int, childMap bool, grandKey, grandIdx int) int {
	g := vhSeenGrand(parent, childPos, childMap, grandKey, grandIdx)
	if g == nil {
		return -1
	}
	return int(g.arr.Count())
}

func seenGrandType(parent *vhNode, childPos int, childMap bool, grandKey, grandIdx int) uint64 {
	g := vhSeenGrand(parent, childPos, childMap, grandKey, grandIdx)
	if g == nil {
		return 0
	}
	return g.typeID()
}

//vh:prop C10 C06 C09 C03
//vh:param ops 2 3
func VH_C10_NestedKinds() {
	vhSetThreshold(256)
	nops := vhParam("ops", 2)
	logst := &vLogStorage{BasicSlabStorage: vhNewBasicStorage()}
	storage := logst
	addr := vhAddr(1)
	parentMap := vhChoose("parentkind", 2) == 1
	childMap := vhChoose("childkind", 2) == 1
	wrapped := vhChoose("wrapped", 2) == 1
	withGrand := vhChoose("grandchild", 2) == 1
	parent := vhNewNode(storage, addr, parentMap, 42)
	child := vhNewNode(storage, addr, childMap, 43)
	var grand *vhNode
	// optional sibling before the child
	if vhChoose("sibling", 2) == 1 {
		vhAssert(parent.add(vElem{tag: 900, size: vhRange32("sibsz", 1, 60)}) == nil, "setup: sibling")
	}
	childPos := parent.n + 1
	// optionally the child already holds an element of any size when it is
	// attached (so it may be attached as a standalone value)
	if vhChoose("prefill", 2) == 1 {
		vhAssert(child.add(vElem{tag: 99, size: vhRange32("csz", 1, 200)}) == nil, "setup: prefill child")
	}
	var cv Value = child.value()
	wrapperSize := uint32(0)
	if wrapped {
		cv = vWrapValue{inner: cv, extra: 2}
		wrapperSize = 2
	}
	vhAssert(parent.add(cv) == nil, "setup: attach child")
	// the per-element limit the parent applies to this child
	childLimit := maxInlineArrayElementSize - wrapperSize
	if parentMap {
		childLimit = maxInlineMapValueSize(vU64(uint64(childPos)).ByteSize()) - wrapperSize
	}
	grandKey, grandIdx := 0, -1 // the grandchild's key (map child) / index (array child)
	if withGrand {
		grand = vhNewNode(storage, addr, false, 44)
		grandIdx = child.count
		vhAssert(child.add(grand.value()) == nil, "setup: attach grandchild")
		grandKey = child.n
	}
	// handle: insertion handle or lookup through the parent
	h := child
	if hm := vhChoose("handle", 3); hm >= 1 {
		var v Value
		var err error
		if hm == 1 {
			v, err = parent.lookup(childPos)
		} else {
			// the handle yielded by MUTABLE iteration over the parent
			pos := 0
			if parent.isMap {
				err = parent.m.Iterate(vhCompareBK, vhHipB, func(k, val Value) (bool, error) {
					if kk, ok := k.(vU64); ok && uint64(kk) == uint64(childPos) {
						v = val
					}
					return true, nil
				})
			} else {
				err = parent.arr.Iterate(func(val Value) (bool, error) {
					pos++
					if pos == childPos {
						v = val
					}
					return true, nil
				})
			}
			vhAssert(v != nil, "setup: iteration yields the child")
			if v == nil {
				return
			}
		}
		vhAssert(err == nil, "setup: lookup child")
		if err != nil {
			return
		}
		lh := vhAsNode(v, childMap)
		vhAssert(lh != nil, "setup: looked-up child has the expected kind")
		if lh == nil {
			return
		}
		lh.n, lh.count = child.n, child.count
		h = lh
	}
	vhAssert(h.vid == child.vid, "setup: handle identity")
	// right after attachment the child is inline exactly when it fits
	if isz, single := h.inlinedSize(); single {
		vhAssert(h.inlined() == (isz <= childLimit), "attached child is inline exactly when it fits the per-element limit")
	}
	removedKeys := map[int]bool{}
	staleGrand := false
	childType, grandType := uint64(43), uint64(44)
	for k := 0; k < nops; k++ {
		// as if a commit had just happened: everything stored so far is clean
		snap := vhSnapshotAll(logst)
		switch vhChoose("op", 7) {
		case 6: // bulk pop through the child handle: the child is empty afterwards (the grandchild goes with it)
			if h.isMap {
				vhAssert(h.m.PopIterate(func(ks, vs Storable) { vhDispose(storage, ks); vhDispose(storage, vs) }) == nil, "child bulk pop")
			} else {
				vhAssert(h.arr.PopIterate(func(s Storable) { vhDispose(storage, s) }) == nil, "child bulk pop")
			}
			h.count = 0
			for c := 1; c <= h.n; c++ {
				removedKeys[c] = true
			}
			grand, grandKey, grandIdx = nil, 0, -1
		case 4: // type change through the child handle (inlined or standalone by solver choice)
			childType = uint64(50 + k)
			vhAssert(h.setType(childType) == nil, "child type change")
		case 5: // type change through the grandchild handle
			if grand == nil {
				return
			}
			grandType = uint64(60 + k)
			if staleGrand {
				vhStaleGrandOp(grand.setType(grandType), seenGrandType(parent, childPos, childMap, grandKey, grandIdx) == grandType)
				return
			}
			vhAssert(grand.setType(grandType) == nil, "grandchild type change")
		case 0: // grow the child
			vhAssert(h.add(vElem{tag: uint64(100 + k), size: vhRange32("csz", 1, 200)}) == nil, "child add")
		case 1: // shrink the child: remove its oldest plain element (never the grandchild)
			if h.isMap {
				// keys are 1..n in insertion order; grandKey is the grandchild's
				key := 0
				for c := 1; c <= h.n; c++ {
					if c != grandKey && !removedKeys[c] {
						key = c
						break
					}
				}
				if key == 0 {
					return
				}
				removedKeys[key] = true
				vhAssert(h.removeFirst(storage, key) == nil, "child remove")
			} else {
				pos := 0
				if grandIdx == 0 {
					pos = 1
				}
				if h.arr.Count() <= uint64(pos) {
					return
				}
				s, err := h.arr.Remove(uint64(pos))
				vhAssert(err == nil, "child remove")
				if err == nil {
					vhDispose(storage, s)
				}
				if pos < grandIdx {
					grandIdx--
					if h != child {
						// the grandchild was attached through the insertion handle, whose
						// position tracking does not see a removal made through ANOTHER
						// handle to the same container (known finding F5)
						staleGrand = true
					}
				}
				h.count--
			}
		case 2: // grow the grandchild through its own handle (depth 3)
			if grand == nil {
				return
			}
			if staleGrand {
				err := grand.add(vElem{tag: uint64(200 + k), size: vhRange32("gsz", 1, 200)})
				vhStaleGrandOp(err, seenGrandCount(parent, childPos, childMap, grandKey, grandIdx) == grand.count)
				return
			}
			vhAssert(grand.add(vElem{tag: uint64(200 + k), size: vhRange32("gsz", 1, 200)}) == nil, "grandchild add")
		case 3: // parent gets another element (index shifts / splits around the child)
			vhAssert(parent.add(vElem{tag: uint64(300 + k), size: vhRange32("psz", 1, 117)}) == nil, "parent add")
		}
		// every slab the operation changed was handed to Store (else the next commit loses it)
		vhCheckDirtyMarks(logst, snap, "nested op: dirty marks")
		// every ancestor stays valid; the mutation is visible through the parent
		parent.verify(addr, 42, "parent")
		pv, err := parent.lookup(childPos)
		vhAssert(err == nil, "child readable through parent")
		if err != nil {
			return
		}
		seen := vhAsNode(pv, childMap)
		vhAssert(seen != nil, "child kind through parent")
		if seen == nil {
			return
		}
		vhAssert(seen.vid == child.vid, "child value id stable")
		seen.count = h.count
		// inline exactly when it is one slab that fits the parent's per-element limit
		if isz, single := h.inlinedSize(); single {
			vhAssert(h.inlined() == (isz <= childLimit), "child is inline exactly when it fits the per-element limit")
		} else {
			vhAssert(!h.inlined(), "multi-slab child is standalone")
		}
		vhAssert(seen.typeID() == childType, "child type through parent")
		seen.verify(addr, childType, "child through parent")
		if grand != nil {
			gpos := grandKey
			if !childMap {
				gpos = grandIdx + 1
			}
			gv, err := seen.lookup(gpos)
			vhAssert(err == nil, "grandchild readable through child")
			if err == nil {
				gs := vhAsNode(gv, false)
				vhAssert(gs != nil && gs.vid == grand.vid, "grandchild identity")
				if gs != nil {
					gs.count = grand.count
					vhAssert(gs.typeID() == grandType, "grandchild type through parent")
					gs.verify(addr, grandType, "grandchild through parent")
				}
			}
		}
	}
	rootID := parent.vid
	_ = rootID
	var root SlabID
	if parentMap {
		root = parent.m.SlabID()
	} else {
		root = parent.arr.SlabID()
	}
	reach := 0
	if parentMap {
		reach = vhMapSlabCount(storage, root)
	} else {
		reach = vhArraySlabCount(storage, root)
	}
	vhAssert(vhStorageSlabCount(logst.BasicSlabStorage) == reach, "no leaked or dangling slabs")
	vhReach("kinds-done")
}
