//go:build verif

package atree

// C10 (and C11/C06/C09): nested-container histories over every combination of
// parent kind (array / map), child kind (array / map), wrapped or not, with an
// optional grandchild (depth 3). Handles come from insertion or from lookup
// through the parent. Element sizes are symbolic, so children cross the
// inline limit in both directions by solver choice. Maps use the library's
// default digester builder with the real hash functions (keys are concrete),
// because handles obtained through a parent always use it.

type vhNode struct {
	isMap bool
	arr   *Array
	m     *OrderedMap
	vid   ValueID
	n     int // elements added so far (next key / tag)
	count int
}

func vhNewNode(storage SlabStorage, addr Address, isMap bool, ti uint64) *vhNode {
	nd := &vhNode{isMap: isMap}
	if isMap {
		nd.m, _ = NewMap(storage, addr, NewDefaultDigesterBuilder(), vTypeInfo{id: ti})
		nd.vid = nd.m.ValueID()
	} else {
		nd.arr, _ = NewArray(storage, addr, vTypeInfo{id: ti})
		nd.vid = nd.arr.ValueID()
	}
	return nd
}

func (nd *vhNode) value() Value {
	if nd.isMap {
		return nd.m
	}
	return nd.arr
}

// add appends an element / sets a new key.
func (nd *vhNode) add(v Value) error {
	nd.n++
	nd.count++
	if nd.isMap {
		_, err := nd.m.Set(vhCompareBK, vhHipB, vBKey{val: uint64(nd.n)}, v)
		return err
	}
	return nd.arr.Append(v)
}

// removeFirst removes the oldest remaining element.
func (nd *vhNode) removeFirst(storage SlabStorage, first int) error {
	nd.count--
	if nd.isMap {
		ks, vs, err := nd.m.Remove(vhCompareBK, vhHipB, vBKey{val: uint64(first)})
		if err == nil {
			vhDispose(storage, ks)
			vhDispose(storage, vs)
		}
		return err
	}
	s, err := nd.arr.Remove(0)
	if err == nil {
		vhDispose(storage, s)
	}
	return err
}

func (nd *vhNode) verify(addr Address, ti uint64, what string) {
	var err error
	var cnt uint64
	if nd.isMap {
		err = VerifyMap(nd.m, addr, vTypeInfo{id: ti}, vhTic, vhHipB, true)
		cnt = nd.m.Count()
	} else {
		err = VerifyArray(nd.arr, addr, vTypeInfo{id: ti}, vhTic, vhHipB, true)
		cnt = nd.arr.Count()
	}
	vhAssert(err == nil, what+": structurally valid")
	vhAssert(cnt == uint64(nd.count), what+": count")
}

// lookup re-obtains the child (position/key 1-based) through the parent.
func (nd *vhNode) lookup(pos int) (Value, error) {
	if nd.isMap {
		return nd.m.Get(vhCompareBK, vhHipB, vBKey{val: uint64(pos)})
	}
	return nd.arr.Get(uint64(pos - 1))
}

func vhAsNode(v Value, isMap bool) *vhNode {
	u, _ := unwrapValue(v)
	nd := &vhNode{isMap: isMap}
	if isMap {
		m, ok := u.(*OrderedMap)
		if !ok {
			return nil
		}
		nd.m, nd.vid = m, m.ValueID()
	} else {
		a, ok := u.(*Array)
		if !ok {
			return nil
		}
		nd.arr, nd.vid = a, a.ValueID()
	}
	return nd
}

//vh:prop C10 C06 C09
//vh:param ops 2 3
func VH_C10_NestedKinds() {
	vhSetThreshold(256)
	nops := vhParam("ops", 2)
	storage := vhNewBasicStorage()
	addr := vhAddr(1)
	parentMap := vhChoose("parentkind", 2) == 1
	childMap := vhChoose("childkind", 2) == 1
	wrapped := vhChoose("wrapped", 2) == 1
	withGrand := vhChoose("grandchild", 2) == 1
	parent := vhNewNode(storage, addr, parentMap, 42)
	child := vhNewNode(storage, addr, childMap, 43)
	var grand *vhNode
	// optional sibling before the child
	if vhChoose("sibling", 2) == 1 {
		vhAssert(parent.add(vElem{tag: 900, size: vhRange32("sibsz", 1, 60)}) == nil, "setup: sibling")
	}
	childPos := parent.n + 1
	var cv Value = child.value()
	if wrapped {
		cv = vWrapValue{inner: cv, extra: 2}
	}
	vhAssert(parent.add(cv) == nil, "setup: attach child")
	if withGrand {
		grand = vhNewNode(storage, addr, false, 44)
		vhAssert(child.add(grand.value()) == nil, "setup: attach grandchild")
	}
	// handle: insertion handle or lookup through the parent
	h := child
	if vhChoose("handle", 2) == 1 {
		v, err := parent.lookup(childPos)
		vhAssert(err == nil, "setup: lookup child")
		if err != nil {
			return
		}
		lh := vhAsNode(v, childMap)
		vhAssert(lh != nil, "setup: looked-up child has the expected kind")
		if lh == nil {
			return
		}
		lh.n, lh.count = child.n, child.count
		h = lh
	}
	vhAssert(h.vid == child.vid, "setup: handle identity")
	firstChildElem := 1
	if withGrand {
		firstChildElem = 1 // the grandchild is element 1 of the child; keep it
	}
	removed := 0
	for k := 0; k < nops; k++ {
		switch vhChoose("op", 4) {
		case 0: // grow the child
			vhAssert(h.add(vElem{tag: uint64(100 + k), size: vhRange32("csz", 1, 200)}) == nil, "child add")
		case 1: // shrink the child (never removes the grandchild)
			idx := firstChildElem + removed
			if withGrand {
				idx++
			}
			if idx > h.n {
				return
			}
			if h.isMap {
				removed++
				vhAssert(h.removeFirst(storage, idx) == nil, "child remove")
			} else {
				// arrays: remove the element right after the grandchild (or the first)
				pos := uint64(0)
				if withGrand {
					pos = 1
				}
				if h.arr.Count() <= pos {
					return
				}
				s, err := h.arr.Remove(pos)
				vhAssert(err == nil, "child remove")
				if err == nil {
					vhDispose(storage, s)
				}
				h.count--
			}
		case 2: // grow the grandchild through its own handle (depth 3)
			if grand == nil {
				return
			}
			vhAssert(grand.add(vElem{tag: uint64(200 + k), size: vhRange32("gsz", 1, 200)}) == nil, "grandchild add")
		case 3: // parent gets another element (index shifts / splits around the child)
			vhAssert(parent.add(vElem{tag: uint64(300 + k), size: vhRange32("psz", 1, 117)}) == nil, "parent add")
		}
		// every ancestor stays valid; the mutation is visible through the parent
		parent.verify(addr, 42, "parent")
		pv, err := parent.lookup(childPos)
		vhAssert(err == nil, "child readable through parent")
		if err != nil {
			return
		}
		seen := vhAsNode(pv, childMap)
		vhAssert(seen != nil, "child kind through parent")
		if seen == nil {
			return
		}
		vhAssert(seen.vid == child.vid, "child value id stable")
		seen.count = h.count
		seen.verify(addr, 43, "child through parent")
		if grand != nil {
			gv, err := seen.lookup(1)
			vhAssert(err == nil, "grandchild readable through child")
			if err == nil {
				gs := vhAsNode(gv, false)
				vhAssert(gs != nil && gs.vid == grand.vid, "grandchild identity")
				if gs != nil {
					gs.count = grand.count
					gs.verify(addr, 44, "grandchild through parent")
				}
			}
		}
	}
	rootID := parent.vid
	_ = rootID
	var root SlabID
	if parentMap {
		root = parent.m.SlabID()
	} else {
		root = parent.arr.SlabID()
	}
	reach := 0
	if parentMap {
		reach = vhMapSlabCount(storage, root)
	} else {
		reach = vhArraySlabCount(storage, root)
	}
	vhAssert(vhStorageSlabCount(storage) == reach, "no leaked or dangling slabs")
	vhReach("kinds-done")
}
