//go:build verif

package atree

import (
	"errors"
	"math"

	"github.com/fxamacker/cbor/v2"
)

// Shared harness building blocks: test doubles for caller-supplied components
// and helpers to construct states directly.

// vhSetThreshold sets the slab-size globals through the library's own
// setThreshold (so that a change to the derived limits in settings.go is seen by
// every harness). Its float computation float64(T)*1.5 is concrete for concrete
// T and summarised as T+T/2 by the engine for symbolic T (lemma VH_L_CeilDiv
// family; exactness is discharged in the C05 lemma harness).
func vhSetThreshold(T uint32) {
	setThreshold(T)
}

// vhSetThresholdSym: the same for a SYMBOLIC slab size. setThreshold's float
// computation uint32(float64(T)*1.5) is summarised by the engine as T+T/2
// (lemma L-mul1.5, discharged with exact IEEE-754 semantics for every legal T
// by VH_C05_Thresholds); its overflow guard folds by interval reasoning.
func vhSetThresholdSym(T uint32) {
	setThreshold(T)
}

func vhAddr(b byte) Address { return Address{0, 0, 0, 0, 0, 0, 0, b} }

func vhSlabID(addr byte, idx byte) SlabID {
	return SlabID{address: vhAddr(addr), index: SlabIndex{0, 0, 0, 0, 0, 0, 0, idx}}
}

// vElem is a scalar element: Value and Storable at once. tag identifies it in
// reference models; size is its encoded size (symbolic under the engine).
type vElem struct {
	tag  uint64
	size uint32
}

var _ Value = vElem{}
var _ Storable = vElem{}

func (e vElem) Storable(storage SlabStorage, addr Address, maxInline uint32) (Storable, error) {
	if e.size <= maxInline {
		return e, nil
	}
	return NewStorableSlab(storage, addr, e, e.size)
}
func (e vElem) Encode(enc *Encoder) error                  { return vhEncodeElem(enc, e) }
func (e vElem) ByteSize() uint32                           { return e.size }
func (e vElem) StoredValue(SlabStorage) (Value, error)     { return e, nil }
func (e vElem) ChildStorables() []Storable                 { return nil }
func (e vElem) CanCopyNonRefSimple() bool                  { return true }
func (e vElem) CopyNonRefSimple() (Storable, error)        { return e, nil }

func vhEncodeElem(enc *Encoder, e vElem) error { return nil }

type vTypeInfo struct{ id uint64 }

func (t vTypeInfo) Encode(enc *cbor.StreamEncoder) error { return enc.EncodeUint64(t.id) }
func (t vTypeInfo) IsComposite() bool                    { return false }
func (t vTypeInfo) Copy() TypeInfo                       { return t }

func vhNewBasicStorage() *BasicSlabStorage {
	return NewBasicSlabStorage(nil, nil, nil, nil)
}

func errorsAs(err error, target any) bool { return errors.As(err, target) }

// vhThreshold sets the slab size: symbolic over the whole legal range when the
// harness parameter symT is 1, else the smallest legal size (256), where tree
// restructuring needs the fewest elements.
func vhThreshold() {
	T := uint32(256)
	if vhParam("symT", 0) == 1 {
		T = vhRange32("T", 256, 32768)
		vhSetThresholdSym(T)
		return
	}
	vhSetThreshold(T)
}

func mathCeil(f float64) float64 { return math.Ceil(f) }
