//go:build verif

package atree

// C11: once a nested container has been removed from (or overwritten in) its
// parent, mutation through a stale handle never touches the former parent;
// the detached container is an intact, independently stored value with the
// same identity that can be reloaded, mutated and re-attached.

//vh:prop C11 C10
//vh:param ops 2 3
func VH_C11_DetachedArray() {
	vhSetThreshold(256)
	nops := vhParam("ops", 2)
	storage := &vLogStorage{BasicSlabStorage: vhNewBasicStorage()}
	addr := vhAddr(1)
	parent, _ := NewArray(storage, addr, vTypeInfo{id: 42})
	child, _ := NewArray(storage, addr, vTypeInfo{id: 42})
	childVID := child.ValueID()
	// child content: k elements of symbolic size (decides inlined vs standalone while attached)
	var cm []uint64
	k := vhChoose("childlen", 3)
	for i := 0; i < k; i++ {
		t := uint64(10 + i)
		_ = child.Append(vElem{tag: t, size: vhRange32("csz", 1, 117)})
		cm = append(cm, t)
	}
	// parent: [sibling?] child [sibling?]
	var pm []uint64
	if vhChoose("before", 2) == 1 {
		_ = parent.Append(vElem{tag: 1, size: vhRange32("sibsz", 1, 117)})
		pm = append(pm, 1)
	}
	childIdx := uint64(len(pm))
	// the child is attached as it is or inside a wrapper value (Some-like)
	wrapped := vhChoose("wrapped", 2) == 1
	var attach Value = child
	if wrapped {
		attach = vWrapValue{inner: child, extra: 2}
	}
	err := parent.Append(attach)
	vhAssert(err == nil, "setup: attach child")
	if vhChoose("after", 2) == 1 {
		_ = parent.Append(vElem{tag: 2, size: vhRange32("sibsz", 1, 117)})
		pm = append(pm, 2)
	}
	// stale handle: the attached handle or one obtained by lookup
	h := child
	switch vhChoose("handle", 3) {
	case 1:
		v, err := parent.Get(childIdx)
		vhAssert(err == nil, "setup: lookup child")
		u, _ := unwrapValue(v)
		h = u.(*Array)
	case 2: // the handle yielded by mutable iteration over the parent
		pos := uint64(0)
		var got Value
		ierr := parent.Iterate(func(v Value) (bool, error) {
			if pos == childIdx {
				got = v
			}
			pos++
			return true, nil
		})
		vhAssert(ierr == nil && got != nil, "setup: iteration yields the child")
		if got == nil {
			return
		}
		u, _ := unwrapValue(got)
		h = u.(*Array)
	}
	// detach: remove, overwrite, or bulk pop of the whole parent
	var detached Storable
	popped := false
	switch vhChoose("detach", 3) {
	case 2:
		// bulk pop: the child is handed to the callback (an inlined child as
		// the inlined slab itself); the former parent is empty afterwards and
		// must stay so whatever is done through the old handle
		err = parent.PopIterate(func(s Storable) {
			if _, ok := s.(SlabIDStorable); ok && SlabID(s.(SlabIDStorable)) != h.SlabID() {
				vhDispose(storage, s)
			}
		})
		vhAssert(err == nil, "detach by bulk pop")
		pm = nil
		childIdx = 0
		popped = true
	case 0:
		detached, err = parent.Remove(childIdx)
		vhAssert(err == nil, "detach by remove")
	default:
		detached, err = parent.Set(childIdx, vElem{tag: 3, size: vhRange32("sibsz", 1, 117)})
		vhAssert(err == nil, "detach by overwrite")
		pm = append(append(append([]uint64{}, pm[:childIdx]...), 3), pm[childIdx:]...)
	}
	if err != nil {
		return
	}
	sid, isRef := unwrapStorable(detached).(SlabIDStorable)
	if !popped {
		vhAssert(isRef, "detached child is handed back as an independently stored value")
		if !isRef {
			return
		}
	}
	parentRoot := parent.root.SlabID()
	for op := 0; op < nops; op++ {
		sizeBefore := parent.root.Header().size
		storage.writes = 0
		parentWrites := 0
		switch vhChoose("op", 5) {
		case 0: // stale append
			t := uint64(50 + op)
			err := h.Append(vElem{tag: t, size: vhRange32("csz", 1, 300)})
			vhAssert(err == nil, "stale append")
			cm = append(cm, t)
		case 1: // stale remove
			if len(cm) == 0 {
				return
			}
			s, err := h.Remove(0)
			vhAssert(err == nil, "stale remove")
			if err == nil {
				vhDispose(storage, s)
			}
			cm = cm[1:]
		case 2: // stale bulk pop
			err := h.PopIterate(func(s Storable) { vhDispose(storage, s) })
			vhAssert(err == nil, "stale pop")
			cm = nil
		case 3: // parent keeps being mutated in between
			err := parent.Insert(0, vElem{tag: uint64(70 + op), size: vhRange32("sibsz", 1, 117)})
			vhAssert(err == nil, "parent insert")
			pm = append([]uint64{uint64(70 + op)}, pm...)
			parentWrites = -1
		case 4: // a new child is placed where the old one was, then the stale handle is used
			nc, _ := NewArray(storage, addr, vTypeInfo{id: 42})
			err := parent.Insert(childIdx, nc)
			vhAssert(err == nil, "parent insert new child at old position")
			pm = append(append(append([]uint64{}, pm[:childIdx]...), 0), pm[childIdx:]...)
			t := uint64(90 + op)
			err = h.Append(vElem{tag: t, size: vhRange32("csz", 1, 117)})
			vhAssert(err == nil, "stale append after new child")
			cm = append(cm, t)
			parentWrites = -1
		}
		if parentWrites == 0 {
			// the former parent is untouched by the stale mutation
			vhAssert(parent.root.Header().size == sizeBefore, "former parent size bookkeeping unchanged")
			_, stillThere, _ := storage.BasicSlabStorage.Retrieve(parentRoot)
			vhAssert(stillThere, "former parent still stored")
		}
		verr := VerifyArray(parent, addr, vTypeInfo{id: 42}, vhTic, vhHip, true)
		vhAssert(verr == nil, "former parent stays valid")
		vhAssert(parent.Count() == uint64(len(pm)), "former parent count")
		for i, want := range pm {
			if want == 0 {
				continue // the new child
			}
			v, err := parent.Get(uint64(i))
			vhAssert(err == nil, "former parent get")
			if err == nil {
				vhAssert(vhTagOf(v) == want, "former parent content unchanged by stale mutation")
			}
		}
	}
	vhAssert(h.ValueID() == childVID, "detached child keeps its value id")
	if popped {
		// a popped inlined child is handed out as the inlined slab; what the
		// caller does with it is outside this property
		vhReach("detached-done")
		return
	}
	// the detached child is an intact, independently stored value with unchanged identity
	vhAssert(!h.Inlined(), "detached child is standalone")
	re, err := NewArrayWithRootID(storage, SlabID(sid))
	vhAssert(err == nil, "detached child reloadable by its identifier")
	if err == nil {
		vhAssert(re.ValueID() == childVID, "reloaded child identity")
		vhCheckArray(re, addr, cm, "detached child")
	}
	// re-attach elsewhere and mutate through the same handle: visible through the new parent
	if vhChoose("reattach", 2) == 1 {
		p2, _ := NewArray(storage, addr, vTypeInfo{id: 42})
		err := p2.Append(h)
		vhAssert(err == nil, "re-attach")
		err = h.Append(vElem{tag: 99, size: vhRange32("csz", 1, 117)})
		vhAssert(err == nil, "mutate after re-attach")
		cm = append(cm, 99)
		vhCheckNested(p2, addr, []vhItem{{child: true}}, cm, childVID, "re-attached")
	}
	vhReach("detached-done")
}

// Map as the former parent: the child array is detached by overwriting its
// key with another container (inlined or standalone) or a plain value, or by
// removing the key; the stale handle is then mutated with symbolic sizes.
//
//vh:prop C11 C09
//vh:param ops 2 3
func VH_C11_DetachedFromMap() {
	vhSetThreshold(256)
	nops := vhParam("ops", 2)
	storage := &vLogStorage{BasicSlabStorage: vhNewBasicStorage()}
	addr := vhAddr(1)
	b := &vDigesterBuilder{levels: 4}
	parent, err := NewMap(storage, addr, b, vTypeInfo{id: 42})
	vhAssert(err == nil, "new map")
	child, _ := NewArray(storage, addr, vTypeInfo{id: 42})
	childVID := child.ValueID()
	var cm []uint64
	k := vhChoose("childlen", 3)
	for i := 0; i < k; i++ {
		t := uint64(10 + i)
		_ = child.Append(vElem{tag: t, size: vhRange32("csz", 1, 100)})
		cm = append(cm, t)
	}
	key := vhNewKey(1)
	_, err = parent.Set(vhCompare, vhHip, key, child)
	vhAssert(err == nil, "attach child under key")
	other := vhNewKey(2)
	vhAssume(other.d[0] != key.d[0])
	_, err = parent.Set(vhCompare, vhHip, other, vElem{tag: 77, size: vhRange32("vsz", 1, 40)})
	vhAssert(err == nil, "sibling entry")
	h := child
	switch vhChoose("handle", 3) {
	case 1:
		v, err := parent.Get(vhCompare, vhHip, key)
		vhAssert(err == nil, "lookup child")
		h = v.(*Array)
	case 2: // the handle yielded by mutable iteration over the parent
		var got Value
		ierr := parent.Iterate(vhCompare, vhHip, func(k, v Value) (bool, error) {
			if kk, ok := k.(vKey); ok && kk.id == key.id {
				got = v
			}
			return true, nil
		})
		vhAssert(ierr == nil && got != nil, "setup: iteration yields the child")
		if got == nil {
			return
		}
		h = got.(*Array)
	}
	// detach
	var detached Storable
	var repl *Array
	present := true
	otherPresent := true
	popped := false
	switch vhChoose("detach", 5) {
	case 4: // bulk pop of the whole parent
		err = parent.PopIterate(func(k Storable, v Storable) {})
		vhAssert(err == nil, "detach by bulk pop")
		present = false
		otherPresent = false
		popped = true
	case 0: // remove the key
		_, detached, err = parent.Remove(vhCompare, vhHip, key)
		vhAssert(err == nil, "detach by remove")
		present = false
	case 1: // overwrite with a plain value
		detached, err = parent.Set(vhCompare, vhHip, key, vElem{tag: 88, size: vhRange32("vsz", 1, 40)})
		vhAssert(err == nil, "detach by overwrite (plain)")
	case 2, 3: // overwrite with another container (small => inlined, or large => standalone)
		repl, _ = NewArray(storage, addr, vTypeInfo{id: 42})
		_ = repl.Append(vElem{tag: 500, size: vhRange32("rsz", 1, 117)})
		detached, err = parent.Set(vhCompare, vhHip, key, repl)
		vhAssert(err == nil, "detach by overwrite (container)")
	}
	if err != nil {
		return
	}
	sid, isRef := detached.(SlabIDStorable)
	if !popped {
		vhAssert(isRef, "detached child is handed back as an independently stored value")
		if !isRef {
			return
		}
	}
	for op := 0; op < nops; op++ {
		sizeBefore := parent.root.Header().size
		switch vhChoose("op", 3) {
		case 0:
			t := uint64(50 + op)
			err := h.Append(vElem{tag: t, size: vhRange32("csz", 1, 200)})
			vhAssert(err == nil, "stale append")
			cm = append(cm, t)
		case 1:
			if len(cm) == 0 {
				return
			}
			s, err := h.Remove(0)
			vhAssert(err == nil, "stale remove")
			if err == nil {
				vhDispose(storage, s)
			}
			cm = cm[1:]
		case 2:
			err := h.PopIterate(func(s Storable) { vhDispose(storage, s) })
			vhAssert(err == nil, "stale pop")
			cm = nil
		}
		vhAssert(parent.root.Header().size == sizeBefore, "former parent size bookkeeping unchanged")
		verr := VerifyMap(parent, addr, vTypeInfo{id: 42}, vhTic, vhHip, true)
		vhAssert(verr == nil, "former parent stays valid")
		// the key still holds what replaced the child (or is absent)
		v, gerr := parent.Get(vhCompare, vhHip, key)
		if !present {
			vhAssert(vhIsKeyNotFound(gerr), "removed key stays absent")
		} else {
			vhAssert(gerr == nil, "former parent lookup")
			if gerr == nil {
				if repl != nil {
					ra, ok := v.(*Array)
					vhAssert(ok && ra.ValueID() == repl.ValueID(), "former parent still holds the replacement container")
					if ok {
						vhAssert(ra.Count() == 1, "replacement container content unchanged")
					}
				} else {
					vhAssert(vhTagOf(v) == 88, "former parent still holds the replacement value")
				}
			}
		}
		sv, serr := parent.Get(vhCompare, vhHip, other)
		if otherPresent {
			vhAssert(serr == nil && vhTagOf(sv) == 77, "sibling entry unchanged")
		} else {
			vhAssert(vhIsKeyNotFound(serr), "popped sibling stays absent")
			vhAssert(parent.Count() == 0, "emptied former parent stays empty")
		}
	}
	vhAssert(h.ValueID() == childVID, "detached child keeps its value id")
	if popped {
		vhReach("detached-done")
		return
	}
	vhAssert(!h.Inlined(), "detached child is standalone")
	re, rerr := NewArrayWithRootID(storage, SlabID(sid))
	vhAssert(rerr == nil, "detached child reloadable by its identifier")
	if rerr == nil {
		vhCheckArray(re, addr, cm, "detached child")
	}
	// C09 with the detached child counted as a root: nothing else remains
	vhAssert(vhStorageSlabCount(storage.BasicSlabStorage) == vhMapSlabCount(storage, parent.SlabID())+vhArraySlabCount(storage, SlabID(sid)),
		"storage holds exactly the former parent's and the detached child's slabs")
	vhReach("detached-done")
}

// The former parent is itself nested and open through TWO handles: the child
// handle was handed out by one of them, the child is detached through the
// other (so the first handle's position tracking for the child is stale), and
// something else now sits at the child's old position. Mutating the detached
// child through its handle must not write it back over that element.
//
//vh:prop C11
//vh:param ops 1 2
func VH_C11_DetachedViaParentAlias() {
	vhSetThreshold(256)
	nops := vhParam("ops", 1)
	storage := &vLogStorage{BasicSlabStorage: vhNewBasicStorage()}
	addr := vhAddr(1)
	grand, _ := NewArray(storage, addr, vTypeInfo{id: 42})
	parent, _ := NewArray(storage, addr, vTypeInfo{id: 42})
	child, _ := NewArray(storage, addr, vTypeInfo{id: 42})
	childVID := child.ValueID()
	var cm []uint64
	k := vhChoose("childlen", 3)
	for i := 0; i < k; i++ {
		t := uint64(10 + i)
		_ = child.Append(vElem{tag: t, size: vhRange32("csz", 1, 60)})
		cm = append(cm, t)
	}
	// parent: [before?] child after
	var pm []uint64
	if vhChoose("before", 2) == 1 {
		_ = parent.Append(vElem{tag: 1, size: vhRange32("sibsz", 1, 40)})
		pm = append(pm, 1)
	}
	childIdx := uint64(len(pm))
	vhAssert(parent.Append(child) == nil, "setup: attach child")
	_ = parent.Append(vElem{tag: 2, size: vhRange32("sibsz", 1, 40)})
	pm = append(pm, 2)
	vhAssert(grand.Append(parent) == nil, "setup: attach parent")
	// two handles to the parent
	v1, err1 := grand.Get(0)
	v2, err2 := grand.Get(0)
	vhAssert(err1 == nil && err2 == nil, "setup: parent handles")
	if err1 != nil || err2 != nil {
		return
	}
	p1, p2 := v1.(*Array), v2.(*Array)
	hv, err := p1.Get(childIdx)
	vhAssert(err == nil, "setup: child handle through the first parent handle")
	if err != nil {
		return
	}
	h := hv.(*Array)
	// detach through the second parent handle, or by a bulk pop through the first
	var detached Storable
	popped := false
	dm := vhChoose("detach", 3)
	if dm == 2 {
		err = p1.PopIterate(func(s Storable) {
			if id, ok := s.(SlabIDStorable); ok && SlabID(id) != h.SlabID() {
				vhDispose(storage, s)
			}
		})
		vhAssert(err == nil, "detach by bulk pop of the nested parent")
		pm = nil
		popped = true
	} else if dm == 0 {
		detached, err = p2.Remove(childIdx)
		vhAssert(err == nil, "detach by remove")
	} else {
		detached, err = p2.Set(childIdx, vElem{tag: 3, size: vhRange32("sibsz", 1, 40)})
		vhAssert(err == nil, "detach by overwrite")
		pm = append(append(append([]uint64{}, pm[:childIdx]...), 3), pm[childIdx:]...)
	}
	if err != nil {
		return
	}
	sid, isRef := detached.(SlabIDStorable)
	if !popped {
		vhAssert(isRef, "detached child is handed back as an independently stored value")
		if !isRef {
			return
		}
	}
	for op := 0; op < nops; op++ {
		switch vhChoose("op", 3) {
		case 2: // the emptied former parent is used again through the same handle
			if !popped {
				return
			}
			err := p1.Append(vElem{tag: uint64(80 + op), size: vhRange32("sibsz", 1, 40)})
			vhAssert(err == nil, "append to the former parent after its bulk pop")
			pm = append(pm, uint64(80+op))
		case 0:
			t := uint64(50 + op)
			err := h.Append(vElem{tag: t, size: vhRange32("csz", 1, 200)})
			vhAssert(err == nil, "stale append")
			cm = append(cm, t)
		case 1:
			if len(cm) == 0 {
				return
			}
			s, err := h.Remove(0)
			vhAssert(err == nil, "stale remove")
			if err == nil {
				vhDispose(storage, s)
			}
			cm = cm[1:]
		}
		// the former parent, read through the grandparent, is unchanged and valid
		verr := VerifyArray(grand, addr, vTypeInfo{id: 42}, vhTic, vhHip, true)
		vhAssert(verr == nil, "ancestors stay valid")
		fv, ferr := grand.Get(0)
		vhAssert(ferr == nil, "former parent readable")
		if ferr != nil {
			return
		}
		fp := fv.(*Array)
		vhAssert(fp.Count() == uint64(len(pm)), "former parent count")
		if fp.Count() == uint64(len(pm)) {
			for i, want := range pm {
				e, gerr := fp.Get(uint64(i))
				vhAssert(gerr == nil, "former parent get")
				if gerr == nil {
					vhAssert(vhTagOf(e) == want, "former parent content unchanged by stale mutation")
				}
			}
		}
	}
	vhAssert(h.ValueID() == childVID, "detached child keeps its value id")
	if popped {
		vhReach("detached-done")
		return
	}
	vhAssert(!h.Inlined(), "detached child is standalone")
	re, rerr := NewArrayWithRootID(storage, SlabID(sid))
	vhAssert(rerr == nil, "detached child reloadable by its identifier")
	if rerr == nil {
		vhCheckArray(re, addr, cm, "detached child")
	}
	vhReach("detached-done")
}
