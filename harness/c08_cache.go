//go:build verif

package atree

// C08: the read cache is transparent. The same history is run twice over two
// ledgers with the real codec (real slab encoders/decoders, real CBOR): once
// warm (everything served from write set / cache) and once with a symbolic
// schedule of {commit, drop cache, reopen from ledger} between the build and
// the operation. Results, structure and the final registers must be identical.

func vhNewPersistentB(base BaseStorage) *PersistentSlabStorage {
	return NewPersistentSlabStorage(base, vhRealEncMode(), vhRealDecMode(), vhDecodeStorableB, vhDecodeTypeInfo)
}

type vhC08Run struct {
	base *vBase
	st   *PersistentSlabStorage
	a    *Array
}

func vhC08Build(vals []uint64, withChild bool, nblobs int) *vhC08Run {
	r := &vhC08Run{base: newVBase()}
	r.st = vhNewPersistentB(r.base)
	addr := vhAddr(1)
	a, _ := NewArray(r.st, addr, vTypeInfo{id: 42})
	for _, v := range vals {
		_ = a.Append(vU64(v))
	}
	if withChild {
		c, _ := NewArray(r.st, addr, vTypeInfo{id: 43})
		_ = c.Append(vU64(5))
		_ = a.Append(c)
	}
	for i := 0; i < nblobs; i++ {
		_ = a.Append(vBlob{n: 100})
	}
	r.a = a
	return r
}

func vhSameRegisters(x, y *vBase, what string) {
	vhAssert(len(x.regs) == len(y.regs), what+": same set of registers")
	for id, bx := range x.regs {
		by, ok := y.regs[id]
		vhAssert(ok, what+": same register identifiers")
		if !ok {
			continue
		}
		vhAssert(len(bx) == len(by), what+": same register length")
		if len(bx) != len(by) {
			continue
		}
		same := true
		for i := range bx {
			same = vhAll(same, bx[i] == by[i])
		}
		vhAssert(same, what+": byte-identical registers")
	}
}

//vh:prop C08 C03
//vh:init cbor
//vh:sched first
//vh:param vals 1 2
//vh:param rounds 1 2
func VH_C08_CacheTransparent() {
	vhSetThreshold(256)
	nv := 1 + vhChoose("nvals", vhParam("vals", 1))
	vals := make([]uint64, nv)
	for i := range vals {
		vals[i] = vhU64("val")
	}
	withChild := vhChoose("child", 2) == 1
	nblobs := vhChoose("multi", 2) * 4 // 0 or enough to span several slabs
	warm := vhC08Build(vals, withChild, nblobs)
	cold := vhC08Build(vals, withChild, nblobs)
	rootID := warm.a.SlabID()
	vhAssert(cold.a.SlabID() == rootID, "same identifiers in both runs")
	// rounds of {schedule of commit / drop cache / reopen on the cold run; the same operation on both}
	childPos := uint64(nv)
	for round := 0; round < vhParam("rounds", 1); round++ {
		err := cold.st.FastCommit(1)
		vhAssert(err == nil, "commit")
		switch vhChoose("schedule", 3) {
		case 0: // commit only (served from cache)
		case 1:
			cold.st.DropCache()
		case 2:
			cold.st = vhNewPersistentB(cold.base)
		}
		ca, err := NewArrayWithRootID(cold.st, rootID)
		vhAssert(err == nil, "reopen from ledger")
		if err != nil {
			return
		}
		cold.a = ca
		vhAssert(cold.a.Count() == warm.a.Count(), "same count after reload")
		// the same operation on both
		nv64 := vhU64("newval")
		op := vhChoose("op", 5)
		for _, r := range []*vhC08Run{warm, cold} {
			switch op {
			case 4: // remove the last element (a tail leaf underflows and borrows from its LEFT sibling)
				n := r.a.Count()
				if n == 0 || (withChild && childPos == n-1) {
					return
				}
				old, err := r.a.Remove(n - 1)
				vhAssert(err == nil, "remove last")
				if err == nil {
					vhObserve("removed-last-size", uint64(old.ByteSize()))
				}
			case 0:
				vhAssert(r.a.Append(vU64(nv64)) == nil, "append")
			case 1:
				if r.a.Count() == 0 {
					return
				}
				old, err := r.a.Set(0, vU64(nv64))
				vhAssert(err == nil, "set")
				if err == nil {
					vhObserve("set-old-size", uint64(old.ByteSize()))
				}
			case 2:
				if (childPos == 0 && withChild) || r.a.Count() == 0 {
					return // keep the child; nothing to remove
				}
				old, err := r.a.Remove(0)
				vhAssert(err == nil, "remove")
				if err == nil {
					vhObserve("removed-size", uint64(old.ByteSize()))
				}
			case 3: // mutate the nested child through the parent
				if !withChild {
					return
				}
				v, err := r.a.Get(childPos)
				vhAssert(err == nil, "get child")
				if err != nil {
					return
				}
				c, ok := v.(*Array)
				vhAssert(ok, "child is an array")
				if !ok {
					return
				}
				vhAssert(c.Append(vU64(nv64)) == nil, "child append")
			}
		}
		if op == 2 {
			childPos--
		}
		if op == 1 && childPos == 0 {
			withChild = false // the child was overwritten
		}
	}
	vhAssert(cold.a.Count() == warm.a.Count(), "same count after the operation")
	ws := VerifyArray(warm.a, vhAddr(1), vTypeInfo{id: 42}, vhTic, vhHip, true)
	cs := VerifyArray(cold.a, vhAddr(1), vTypeInfo{id: 42}, vhTic, vhHip, true)
	vhAssert(ws == nil && cs == nil, "both structurally valid")
	vhAssert(warm.st.FastCommit(1) == nil, "final commit (warm)")
	vhAssert(cold.st.FastCommit(1) == nil, "final commit (cold)")
	vhSameRegisters(warm.base, cold.base, "final ledger")
	vhReach("cache-done")
}

// Compact (same-typed composite) inlined maps under the same differential:
// return values and logical content are identical warm and after
// commit + reopen (registers may legitimately differ for compact maps).
//
//vh:prop C08 C02
//vh:init cbor
//vh:sched first
//vh:param children 2 3
func VH_C08_CompactCacheTransparent() {
	vhSetThreshold(256)
	nchild := vhParam("children", 2)
	nkeys := 2
	vals := make([][]uint64, nchild)
	for c := range vals {
		for k := 0; k < nkeys; k++ {
			vals[c] = append(vals[c], vhRange("cval", 0, 1000))
		}
	}
	addr := vhAddr(1)
	type run struct {
		base *vBase
		st   *PersistentSlabStorage
		m    *OrderedMap
	}
	mk := func() *run {
		r := &run{base: newVBase()}
		r.st = vhNewPersistentB(r.base)
		r.m, _ = vhCompactParentVals(r.st, addr, vals)
		return r
	}
	warm, cold := mk(), mk()
	rootID := warm.m.SlabID()
	vhAssert(cold.st.FastCommit(1) == nil, "commit")
	if vhChoose("schedule", 2) == 0 {
		cold.st.DropCache()
	} else {
		cold.st = vhNewPersistentB(cold.base)
	}
	cm, err := NewMapWithRootID(cold.st, rootID, NewDefaultDigesterBuilder())
	vhAssert(err == nil, "reopen from ledger")
	if err != nil {
		return
	}
	cold.m = cm
	// operation on one child, through the parent
	target := vhChoose("target", nchild)
	op := vhChoose("op", 3)
	newv := vhRange("newval", 0, 1000)
	for _, r := range []*run{warm, cold} {
		v, err := r.m.Get(vhCompareBK, vhHipB, vBKey{val: uint64(target + 1)})
		vhAssert(err == nil, "get target child")
		if err != nil {
			return
		}
		c, ok := v.(*OrderedMap)
		vhAssert(ok, "child is a map")
		if !ok {
			return
		}
		switch op {
		case 0:
			_, _, err = c.Remove(vhCompareBK, vhHipB, vBKey{val: 100})
			vhAssert(err == nil, "remove a field from one child")
		case 1:
			_, err = c.Set(vhCompareBK, vhHipB, vBKey{val: 100}, vU64(newv))
			vhAssert(err == nil, "overwrite a field in one child")
		case 2:
			_, err = c.Set(vhCompareBK, vhHipB, vBKey{val: 999}, vU64(newv))
			vhAssert(err == nil, "add a field to one child")
		}
	}
	// every child's content is identical in both runs
	read := func(r *run, c, k int) (uint64, bool) {
		v, err := r.m.Get(vhCompareBK, vhHipB, vBKey{val: uint64(c + 1)})
		if err != nil {
			return 0, false
		}
		cmap, ok := v.(*OrderedMap)
		if !ok {
			return 0, false
		}
		fv, err := cmap.Get(vhCompareBK, vhHipB, vBKey{val: uint64(100 + k)})
		if err != nil {
			return 0, false
		}
		u, ok := fv.(vU64)
		return uint64(u), ok
	}
	for c := 0; c < nchild; c++ {
		for k := 0; k < nkeys; k++ {
			wv, wok := read(warm, c, k)
			cv, cok := read(cold, c, k)
			vhAssert(wok == cok, "same fields present warm and after reload")
			if wok && cok {
				vhAssert(wv == cv, "same field values warm and after reload")
			}
			if !(c == target && k == 0) {
				vhAssert(wok, "untouched fields stay readable")
				if wok {
					vhAssert(wv == vals[c][k], "untouched fields keep their values")
				}
			}
		}
	}
	ws := VerifyMap(warm.m, addr, vTypeInfo{id: 42}, vhTic, vhHipB, true)
	cs := VerifyMap(cold.m, addr, vTypeInfo{id: 42}, vhTic, vhHipB, true)
	vhAssert(ws == nil && cs == nil, "both structurally valid")
	vhReach("compact-cache-done")
}

// The warm/cold differential on a THREE-level array (real codec): 60 elements
// of 100 bytes at slab size 256 (more than 26 leaves, so index slabs below the
// root), committed; the cold run continues from a fresh storage over the
// ledger. One operation at a chosen position (removal, shrinking or growing
// overwrite, insertion) runs on both; both stay valid, agree element by
// element, and commit to byte-identical registers; a brand-new storage over the
// cold ledger reads the same content.
//
//vh:prop C08 C03
//vh:init cbor
//vh:sched first
//vh:param deepn 60 70
func VH_C08_DeepReload() {
	vhSetThreshold(256)
	n := vhParam("deepn", 60)
	mk := func() *vhC08Run {
		r := &vhC08Run{base: newVBase()}
		r.st = vhNewPersistentB(r.base)
		a, _ := NewArray(r.st, vhAddr(1), vTypeInfo{id: 42})
		for i := 0; i < n; i++ {
			_ = a.Append(vBlob{n: 97})
		}
		r.a = a
		return r
	}
	warm, cold := mk(), mk()
	rootID := warm.a.SlabID()
	root, isMeta := warm.a.root.(*ArrayMetaDataSlab)
	vhAssert(isMeta, "root is an index slab")
	if isMeta {
		_, childIsMeta := func() (Slab, bool) {
			s, _, _ := warm.st.Retrieve(root.childrenHeaders[0].slabID)
			_, ok := s.(*ArrayMetaDataSlab)
			return s, ok
		}()
		vhAssert(childIsMeta, "three levels")
	}
	vhAssert(cold.st.FastCommit(1) == nil, "commit")
	vhAssert(warm.st.FastCommit(1) == nil, "commit (warm keeps its cache)")
	cold.st = vhNewPersistentB(cold.base)
	ca, err := NewArrayWithRootID(cold.st, rootID)
	vhAssert(err == nil, "reopen from ledger")
	if err != nil {
		return
	}
	cold.a = ca
	// positions next to leaf / index-slab boundaries
	positions := []int{0, 1, 2, n / 2, n/2 + 1, n - 2, n - 1}
	pos := uint64(positions[vhChoose("pos", len(positions))])
	op := vhChoose("op", 4)
	for _, r := range []*vhC08Run{warm, cold} {
		switch op {
		case 0:
			_, err := r.a.Remove(pos)
			vhAssert(err == nil, "remove")
		case 1:
			_, err := r.a.Set(pos, vBlob{n: 1})
			vhAssert(err == nil, "shrinking overwrite")
		case 2:
			_, err := r.a.Set(pos, vBlob{n: 110})
			vhAssert(err == nil, "growing overwrite")
		case 3:
			vhAssert(r.a.Insert(pos, vBlob{n: 105}) == nil, "insert")
		}
	}
	vhAssert(warm.a.Count() == cold.a.Count(), "same count")
	ws := VerifyArray(warm.a, vhAddr(1), vTypeInfo{id: 42}, vhTic, vhHipB, true)
	cs := VerifyArray(cold.a, vhAddr(1), vTypeInfo{id: 42}, vhTic, vhHipB, true)
	vhAssert(ws == nil && cs == nil, "both structurally valid")
	vhAssert(warm.st.FastCommit(1) == nil, "final commit (warm)")
	vhAssert(cold.st.FastCommit(1) == nil, "final commit (cold)")
	vhSameRegisters(warm.base, cold.base, "final ledger")
	// a brand-new storage over the cold ledger
	st3 := vhNewPersistentB(cold.base)
	a3, err := NewArrayWithRootID(st3, rootID)
	vhAssert(err == nil, "reopen after the final commit")
	if err == nil {
		vhAssert(a3.Count() == warm.a.Count(), "reopened count")
		vhAssert(VerifyArray(a3, vhAddr(1), vTypeInfo{id: 42}, vhTic, vhHipB, true) == nil, "reopened array valid")
		for i := uint64(0); i < a3.Count(); i++ {
			x, e1 := a3.Get(i)
			y, e2 := warm.a.Get(i)
			vhAssert(e1 == nil && e2 == nil, "get")
			if e1 == nil && e2 == nil {
				vhAssert(x.(vBlob).n == y.(vBlob).n, "reopened content equals the warm content")
			}
		}
	}
	vhReach("deep-reload-done")
}

// The same differential on a THREE-level map (real codec, real hashing): 64
// keys with 80-byte values at slab size 256, committed, continued cold from a
// fresh storage; one operation (insert of a new key, overwrite with a value of
// another size, removal) on both; same results, both valid, byte-identical
// registers, and a brand-new storage reads the same dictionary with the same
// element count.
//
//vh:prop C08 C03 C02
//vh:init cbor
//vh:sched first
//vh:param deepkeys 64 72
func VH_C08_DeepMapReload() {
	vhSetThreshold(256)
	n := vhParam("deepkeys", 64)
	type run struct {
		base *vBase
		st   *PersistentSlabStorage
		m    *OrderedMap
	}
	mk := func() *run {
		r := &run{base: newVBase()}
		r.st = vhNewPersistentB(r.base)
		r.m, _ = NewMap(r.st, vhAddr(1), NewDefaultDigesterBuilder(), vTypeInfo{id: 42})
		for i := 0; i < n; i++ {
			_, _ = r.m.Set(vhCompareBK, vhHipB, vBKey{val: uint64(i + 1)}, vBlob{n: 80})
		}
		return r
	}
	warm, cold := mk(), mk()
	rootID := warm.m.SlabID()
	root, isMeta := warm.m.root.(*MapMetaDataSlab)
	vhAssert(isMeta, "root is an index slab")
	if isMeta {
		s, _, _ := warm.st.Retrieve(root.childrenHeaders[0].slabID)
		_, childIsMeta := s.(*MapMetaDataSlab)
		vhAssert(childIsMeta, "three levels")
	}
	vhAssert(cold.st.FastCommit(1) == nil, "commit")
	vhAssert(warm.st.FastCommit(1) == nil, "commit (warm keeps its cache)")
	cold.st = vhNewPersistentB(cold.base)
	cm, err := NewMapWithRootID(cold.st, rootID, NewDefaultDigesterBuilder())
	vhAssert(err == nil, "reopen from ledger")
	if err != nil {
		return
	}
	cold.m = cm
	keys := []uint64{1, 2, uint64(n / 2), uint64(n - 1), uint64(n)}
	k := keys[vhChoose("key", len(keys))]
	op := vhChoose("op", 4)
	want := n
	for _, r := range []*run{warm, cold} {
		switch op {
		case 0:
			_, _, err := r.m.Remove(vhCompareBK, vhHipB, vBKey{val: k})
			vhAssert(err == nil, "remove")
		case 1:
			_, err := r.m.Set(vhCompareBK, vhHipB, vBKey{val: k}, vBlob{n: 1})
			vhAssert(err == nil, "shrinking overwrite")
		case 2:
			_, err := r.m.Set(vhCompareBK, vhHipB, vBKey{val: k}, vBlob{n: 95})
			vhAssert(err == nil, "growing overwrite")
		case 3:
			old, err := r.m.Set(vhCompareBK, vhHipB, vBKey{val: 1000 + k}, vBlob{n: 40})
			vhAssert(err == nil && old == nil, "insert of a new key")
		}
	}
	if op == 0 {
		want = n - 1
	}
	if op == 3 {
		want = n + 1
	}
	vhAssert(warm.m.Count() == uint64(want) && cold.m.Count() == uint64(want), "count follows the operation")
	ws := VerifyMap(warm.m, vhAddr(1), vTypeInfo{id: 42}, vhTic, vhHipB, true)
	cs := VerifyMap(cold.m, vhAddr(1), vTypeInfo{id: 42}, vhTic, vhHipB, true)
	vhAssert(ws == nil && cs == nil, "both structurally valid")
	vhAssert(warm.st.FastCommit(1) == nil, "final commit (warm)")
	vhAssert(cold.st.FastCommit(1) == nil, "final commit (cold)")
	vhSameRegisters(warm.base, cold.base, "final ledger")
	st3 := vhNewPersistentB(cold.base)
	m3, err := NewMapWithRootID(st3, rootID, NewDefaultDigesterBuilder())
	vhAssert(err == nil, "reopen after the final commit")
	if err == nil {
		vhAssert(m3.Count() == uint64(want), "reopened map reports the element count it had at commit time")
		vhAssert(VerifyMap(m3, vhAddr(1), vTypeInfo{id: 42}, vhTic, vhHipB, true) == nil, "reopened map valid")
	}
	vhReach("deep-map-reload-done")
}
