//go:build verif

package atree

import "fmt"

// vSlab is a slab double for storage-level harnesses: an id, a version tag
// (content identity) and outgoing references.
type vSlab struct {
	id      SlabID
	version uint64
	refs    []Storable
	size    uint32
	encFail bool
}

var _ Slab = &vSlab{}

func (s *vSlab) Encode(*Encoder) error                  { return nil }
func (s *vSlab) ByteSize() uint32                       { return s.size }
func (s *vSlab) StoredValue(SlabStorage) (Value, error) { return nil, fmt.Errorf("vSlab is not a value") }
func (s *vSlab) ChildStorables() []Storable             { return append([]Storable(nil), s.refs...) }
func (s *vSlab) CanCopyNonRefSimple() bool              { return false }
func (s *vSlab) CopyNonRefSimple() (Storable, error)    { return nil, fmt.Errorf("no copy") }
func (s *vSlab) String() string                         { return "vSlab" }
func (s *vSlab) SlabID() SlabID                         { return s.id }
func (s *vSlab) Split(SlabStorage) (Slab, Slab, error)  { return nil, nil, fmt.Errorf("n/a") }
func (s *vSlab) Merge(Slab) error                       { return fmt.Errorf("n/a") }
func (s *vSlab) LendToRight(Slab) error                 { return fmt.Errorf("n/a") }
func (s *vSlab) BorrowFromRight(Slab) error             { return fmt.Errorf("n/a") }

// vWrapStorable is a non-reference storable holding one child storable.
type vWrapStorable struct {
	inner Storable
	extra uint32
}

var _ WrapperStorable = vWrapStorable{}

func (w vWrapStorable) Encode(*Encoder) error { return nil }
func (w vWrapStorable) ByteSize() uint32      { return w.extra + w.inner.ByteSize() }
func (w vWrapStorable) StoredValue(s SlabStorage) (Value, error) {
	v, err := w.inner.StoredValue(s)
	if err != nil {
		return nil, err
	}
	return vWrapValue{inner: v, extra: w.extra}, nil
}
func (w vWrapStorable) ChildStorables() []Storable   { return []Storable{w.inner} }
func (w vWrapStorable) CanCopyNonRefSimple() bool    { return w.inner.CanCopyNonRefSimple() }
func (w vWrapStorable) UnwrapAtreeStorable() Storable { return w.inner }
func (w vWrapStorable) WrapAtreeStorable(s Storable) Storable {
	return vWrapStorable{inner: s, extra: w.extra}
}
func (w vWrapStorable) CopyNonRefSimple() (Storable, error) {
	c, err := w.inner.CopyNonRefSimple()
	if err != nil {
		return nil, err
	}
	return vWrapStorable{inner: c, extra: w.extra}, nil
}

// vWrapValue wraps a value (WrapperValue).
type vWrapValue struct {
	inner Value
	extra uint32
}

var _ WrapperValue = vWrapValue{}

func (w vWrapValue) UnwrapAtreeValue() (Value, uint32) { return w.inner, w.extra }
func (w vWrapValue) Storable(storage SlabStorage, addr Address, maxInline uint32) (Storable, error) {
	if maxInline < w.extra {
		maxInline = 0
	} else {
		maxInline -= w.extra
	}
	s, err := w.inner.Storable(storage, addr, maxInline)
	if err != nil {
		return nil, err
	}
	return vWrapStorable{inner: s, extra: w.extra}, nil
}
