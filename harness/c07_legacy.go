//go:build verif

package atree

import "encoding/binary"

// Version-0 registers. The library only WRITES version 1, but ledgers hold
// registers written by earlier releases and the decoders accept both. A
// version-0 register differs from version 1 in its framing (second head after
// the root's extra data, a sibling link that is always present in non-root data
// slabs, 9-byte array head, index-slab child entries with full 16-byte
// identifiers and 4-byte sizes); elements are encoded alike. vhEncodeV0 writes
// that framing for a flat slab (no inlined children: version 0 had none) from
// the in-memory slab, per the format comments of the version-0 decoders.
func vhEncodeV0(s Slab, flags byte) []byte {
	var buf vhBuf
	enc := NewEncoder(&buf, vhRealEncMode())
	head := []byte{0x00, flags}
	put := func(b []byte) { _, _ = buf.Write(b) }
	put(head)
	rawID := func(id SlabID) []byte {
		b := make([]byte, SlabIDLength)
		_, _ = id.ToRawBytes(b)
		return b
	}
	switch x := s.(type) {
	case *ArrayDataSlab:
		if x.extraData != nil {
			_ = x.extraData.Encode(enc, defaultEncodeTypeInfo)
			put(head)
		} else {
			put(rawID(x.next))
		}
		h := make([]byte, 9)
		h[0] = 0x9b
		binary.BigEndian.PutUint64(h[1:], uint64(len(x.elements)))
		put(h)
		for _, e := range x.elements {
			_ = e.Encode(enc)
		}
		_ = enc.CBOR.Flush()
	case *ArrayMetaDataSlab:
		if x.extraData != nil {
			_ = x.extraData.Encode(enc, defaultEncodeTypeInfo)
			put(head)
		}
		n := make([]byte, 2)
		binary.BigEndian.PutUint16(n, uint16(len(x.childrenHeaders)))
		put(n)
		for _, c := range x.childrenHeaders {
			put(rawID(c.slabID))
			e := make([]byte, 8)
			binary.BigEndian.PutUint32(e, c.count)
			binary.BigEndian.PutUint32(e[4:], c.size)
			put(e)
		}
	case *MapDataSlab:
		if x.extraData != nil {
			_ = x.extraData.Encode(enc, defaultEncodeTypeInfo)
			put(head)
		} else {
			put(rawID(x.next))
		}
		_ = x.elements.Encode(enc)
		_ = enc.CBOR.Flush()
	case *MapMetaDataSlab:
		if x.extraData != nil {
			_ = x.extraData.Encode(enc, defaultEncodeTypeInfo)
			put(head)
		}
		n := make([]byte, 2)
		binary.BigEndian.PutUint16(n, uint16(len(x.childrenHeaders)))
		put(n)
		for _, c := range x.childrenHeaders {
			put(rawID(c.slabID))
			e := make([]byte, 12)
			binary.BigEndian.PutUint64(e, uint64(c.firstKey))
			binary.BigEndian.PutUint32(e[8:], c.size)
			put(e)
		}
	default:
		return nil
	}
	return buf.b
}

// vhLegacyContainers builds flat containers (what version 0 could hold):
// scalars, a large value behind a reference, an inline and an external
// collision group; one slab or several by choice of n.
func vhLegacyContainers(n int, isMap bool, withRef bool) *BasicSlabStorage {
	vhSetThreshold(256)
	storage := vhNewByteStorage()
	addr := vhAddr(1)
	if !isMap {
		a, _ := NewArray(storage, addr, vTypeInfo{id: 42})
		for i := 0; i < n; i++ {
			if i%2 == 0 {
				_ = a.Append(vBlob{n: 60})
			} else {
				_ = a.Append(vU64(uint64(i) * 1000))
			}
		}
		if withRef {
			_ = a.Append(vBlob{n: 200})
		}
		return storage
	}
	b := &vDigesterBuilder{levels: 4, known: map[uint64][4]uint64{}}
	m, _ := NewMap(storage, addr, b, vTypeInfo{id: 44})
	put := func(val uint64, d0, d1 uint64, v Value) {
		k := vBKey{val: val, d: [4]uint64{d0, d1, val, val}}
		b.known[val] = k.d
		_, _ = m.Set(vhCompareB, vhHip, k, v)
	}
	for i := 0; i < n; i++ {
		put(uint64(i+1), uint64(10*(i+1)), 1, vBlob{n: 50})
	}
	if withRef {
		put(100, 5, 1, vU64(6))
		put(101, 5, 2, vU64(7)) // inline group
		put(102, 7, 1, vBlob{n: 60})
		put(103, 7, 2, vBlob{n: 60}) // external group
		put(104, 8, 1, vBlob{n: 200}) // large value behind a reference
	}
	return storage
}

// Every slab of a flat container, framed as a version-0 register, decodes to a
// slab that (a) reports the size of its version-1 encoding (the figure the
// split/merge decisions use from then on), (b) re-encodes to exactly the
// version-1 register the library writes for the in-memory original (so the
// first commit after an upgrade is canonical), (c) answers the header queries
// on the raw version-0 bytes like the version-1 register does, and (d) a
// storage over version-0 registers alone reads the same content.
//
//vh:prop C07 C06 C08 C19
//vh:init cbor
func VH_C07_LegacyRegisters() {
	isMap := vhChoose("map", 2) == 1
	n := []int{0, 1, 3, 9}[vhChoose("n", 4)]
	withRef := vhChoose("refs", 2) == 1
	storage := vhLegacyContainers(n, isMap, withRef)
	legacy := newVBase()
	var rootID SlabID
	for id, s := range storage.Slabs {
		v1, err := EncodeSlab(s, storage.cborEncMode)
		vhAssert(err == nil, "version-1 register")
		if err != nil {
			return
		}
		if root, _ := IsRootOfAnObject(v1); root {
			switch s.(type) {
			case *ArrayDataSlab, *ArrayMetaDataSlab, *MapDataSlab, *MapMetaDataSlab:
				rootID = id
			}
		}
		v0 := vhEncodeV0(s, v1[1])
		if v0 == nil {
			legacy.regs[id] = v1 // storable slabs: framing unchanged apart from the version
			continue
		}
		legacy.regs[id] = v0
		vhSetAllocLimit(len(v0) + 1)
		d, err := DecodeSlab(id, v0, vhRealDecMode(), vhDecodeStorableB, vhDecodeTypeInfo)
		vhSetAllocLimit(0)
		vhAssert(err == nil, "version-0 register decodes")
		if err != nil {
			continue
		}
		vhAssert(d.ByteSize() == s.ByteSize(), "slab decoded from a version-0 register reports its version-1 size")
		re, err := EncodeSlab(d, storage.cborEncMode)
		vhAssert(err == nil, "decoded version-0 slab encodes")
		if err == nil {
			vhAssert(vhBytesEqual(re, v1), "version-0 register upgrades to the canonical version-1 register")
		}
		r0, e0 := IsRootOfAnObject(v0)
		r1, _ := IsRootOfAnObject(v1)
		p0, e1 := HasPointers(v0)
		p1, _ := HasPointers(v1)
		l0, e2 := HasSizeLimit(v0)
		l1, _ := HasSizeLimit(v1)
		vhAssert(e0 == nil && e1 == nil && e2 == nil, "header queries on version-0 bytes")
		vhAssert(r0 == r1 && p0 == p1 && l0 == l1, "header flags of the version-0 register describe the slab")
		vhAssert(len(d.ChildStorables()) == len(s.ChildStorables()), "same child references")
	}
	// a storage over the version-0 ledger reads the same container
	st := vhNewPersistentB(legacy)
	if isMap {
		b := &vDigesterBuilder{levels: 4, known: map[uint64][4]uint64{}}
		for i := 0; i < n; i++ {
			b.known[uint64(i+1)] = [4]uint64{uint64(10 * (i + 1)), 1, uint64(i + 1), uint64(i + 1)}
		}
		for _, k := range [][3]uint64{{100, 5, 1}, {101, 5, 2}, {102, 7, 1}, {103, 7, 2}, {104, 8, 1}} {
			b.known[k[0]] = [4]uint64{k[1], k[2], k[0], k[0]}
		}
		m, err := NewMapWithRootID(st, rootID, b)
		vhAssert(err == nil, "map opens over version-0 registers")
		if err == nil {
			want := uint64(n)
			if withRef {
				want += 5
			}
			vhAssert(m.Count() == want, "legacy map: count")
			vhAssert(VerifyMap(m, vhAddr(1), vTypeInfo{id: 44}, vhTic, vhHip, true) == nil, "legacy map: structurally valid")
			for i := 0; i < n; i++ {
				v, err := m.Get(vhCompareB, vhHip, vBKey{val: uint64(i + 1), d: b.known[uint64(i+1)]})
				vhAssert(err == nil, "legacy map: key present")
				if err == nil {
					bl, ok := v.(vBlob)
					vhAssert(ok && bl.n == 50, "legacy map: value")
				}
			}
		}
	} else {
		a, err := NewArrayWithRootID(st, rootID)
		vhAssert(err == nil, "array opens over version-0 registers")
		if err == nil {
			want := uint64(n)
			if withRef {
				want++
			}
			vhAssert(a.Count() == want, "legacy array: count")
			vhAssert(VerifyArray(a, vhAddr(1), vTypeInfo{id: 42}, vhTic, vhHipB, true) == nil, "legacy array: structurally valid")
			for i := 0; i < n; i++ {
				v, err := a.Get(uint64(i))
				vhAssert(err == nil, "legacy array: element readable")
				if err == nil {
					if i%2 == 0 {
						bl, ok := v.(vBlob)
						vhAssert(ok && bl.n == 60, "legacy array: blob element")
					} else {
						u, ok := v.(vU64)
						vhAssert(ok && uint64(u) == uint64(i)*1000, "legacy array: scalar element")
					}
				}
			}
			// mutate and commit: the ledger is upgraded slab by slab and stays readable
			vhAssert(a.Append(vU64(1)) == nil, "legacy array: append")
			vhAssert(st.FastCommit(1) == nil, "legacy array: commit")
			st2 := vhNewPersistentB(legacy)
			a2, err := NewArrayWithRootID(st2, rootID)
			vhAssert(err == nil && a2.Count() == want+1, "legacy array: reopened after the upgrade commit")
		}
	}
	vhReach("legacy-done")
}

func vhBytesEqual(x, y []byte) bool {
	if len(x) != len(y) {
		return false
	}
	same := true
	for i := range x {
		same = vhAll(same, x[i] == y[i])
	}
	return same
}
