//go:build verif

package atree

import "errors"

// C02: one inductive step of every map operation from any valid bounded map
// of single elements; all digests and sizes symbolic.

func vhMapShape() []int {
	maxLeaves := vhParam("leaves", 2)
	maxPerLeaf := vhParam("perleaf", 3)
	k := 1 + vhChoose("leaves", maxLeaves)
	counts := make([]int, k)
	for i := range counts {
		if k == 1 {
			counts[i] = vhChoose("cnt", maxPerLeaf+1)
		} else {
			counts[i] = 2 + vhChoose("cnt", maxPerLeaf-1)
		}
	}
	return counts
}

func vhIsKeyNotFound(err error) bool {
	var knf *KeyNotFoundError
	return errors.As(err, &knf)
}

//vh:prop C02 C05 C09 C06 C03
//vh:param leaves 2 3
//vh:param perleaf 3 3
//vh:param symT 0 1
func VH_C02_MapStep() {
	vhThreshold()
	logst := &vLogStorage{BasicSlabStorage: vhNewBasicStorage()}
	storage := logst.BasicSlabStorage
	addr := vhAddr(1)
	b := &vDigesterBuilder{levels: 4}
	counts := vhMapShape()
	m, model := vhBuildMap(logst, addr, b, counts)
	rootID := m.SlabID()
	snap := vhSnapshotAll(logst)
	n := len(model)
	op := vhChoose("op", 6)
	switch op {
	case 5: // type change
		vhAssert(vhTic(m.Type(), vTypeInfo{id: 42}), "type before")
		err := m.SetType(vTypeInfo{id: 43})
		vhAssert(err == nil, "set type: no error")
		vhAssert(vhTic(m.Type(), vTypeInfo{id: 43}), "type after")
		vhAssert(logst.stored[rootID], "type change recorded as dirty")
		vhAssert(m.Count() == uint64(n), "type change keeps the content")
		vhReach("step-done")
		return
	case 0: // Get / Has of an absent key (any digests)
		k := vhNewKey(9999)
		_, err := m.Get(vhCompare, vhHip, k)
		vhAssert(err != nil, "get absent: error")
		vhAssert(vhIsKeyNotFound(err), "get absent: key-not-found")
		has, err := m.Has(vhCompare, vhHip, k)
		vhAssert(err == nil, "has absent: no error")
		vhAssert(!has, "has absent: false")
	case 1: // Set new key
		k := vhNewKey(9999)
		vs := vhRange32("newvsz", 1, 65536)
		old, err := m.Set(vhCompare, vhHip, k, vElem{tag: 5555, size: vs})
		vhAssert(err == nil, "set new: no error")
		if err != nil {
			return
		}
		vhAssert(old == nil, "set new: no previous value")
		model = append(model, vhKV{key: k, val: 5555})
	case 2: // Set existing key
		if n == 0 {
			return
		}
		i := vhChoose("which", n)
		vs := vhRange32("newvsz", 1, 65536)
		old, err := m.Set(vhCompare, vhHip, model[i].key, vElem{tag: 5555, size: vs})
		vhAssert(err == nil, "set existing: no error")
		if err != nil {
			return
		}
		vhAssert(old != nil, "set existing: previous value returned")
		if old != nil {
			ov, _ := old.StoredValue(storage)
			vhAssert(vhTagOf(ov) == model[i].val, "set existing: previous value")
			vhDispose(storage, old)
		}
		model[i].val = 5555
	case 3: // Remove present
		if n == 0 {
			return
		}
		i := vhChoose("which", n)
		ks, vs, err := m.Remove(vhCompare, vhHip, model[i].key)
		vhAssert(err == nil, "remove present: no error")
		if err != nil {
			return
		}
		kid, _ := vhKeyID(ks, storage)
		vhAssert(kid == model[i].key.id, "remove: key")
		rv, _ := vs.StoredValue(storage)
		vhAssert(vhTagOf(rv) == model[i].val, "remove: value")
		vhDispose(storage, ks)
		vhDispose(storage, vs)
		model = append(append([]vhKV{}, model[:i]...), model[i+1:]...)
	case 4: // Remove absent
		k := vhNewKey(9999)
		_, _, err := m.Remove(vhCompare, vhHip, k)
		vhAssert(err != nil, "remove absent: error")
		vhAssert(vhIsKeyNotFound(err), "remove absent: key-not-found")
	}
	vhAssert(m.SlabID() == rootID, "root id stable")
	vhCheckDirtyMarks(logst, snap, "dirty marks")
	vhCheckMap(m, addr, model, "post")
	m2, err := NewMapWithRootID(logst, rootID, b)
	vhAssert(err == nil, "reopen by root id")
	if err == nil {
		vhCheckMap(m2, addr, model, "reopened")
	}
	vhAssert(vhStorageSlabCount(storage) == vhMapSlabCount(storage, rootID), "no leaked or dangling slabs")
	vhReach("step-done")
}
