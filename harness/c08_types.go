//go:build verif

package atree

// Nested containers of EQUAL type inside one parent slab: the encoder stores
// one type-information entry for all of them and the decoder hands each child
// a reference into that table. A type change on one child (through a handle
// obtained before or after a reload) changes that child only; the siblings
// keep their type in memory, after the next commit and after reopening.
// Warm (never reloaded) and cold (committed, reloaded) runs must agree, and
// their final registers must be byte-identical.
//
//vh:prop C08 C01 C02 C10
//vh:init cbor
//vh:sched first
//vh:param children 2 3
func VH_C08_SiblingTypes() {
	vhSetThreshold(256)
	nchild := 2 + vhChoose("nchild", vhParam("children", 2)-1)
	mapChildren := vhChoose("kind", 2) == 1
	mapParent := vhChoose("parentkind", 2) == 1
	addr := vhAddr(1)
	type run struct {
		base *vBase
		st   *PersistentSlabStorage
		pa   *Array
		pm   *OrderedMap
	}
	// child contents: symbolic values (every CBOR width)
	cvals := make([]uint64, nchild)
	for c := range cvals {
		cvals[c] = vhU64("cval")
	}
	mk := func() *run {
		r := &run{base: newVBase()}
		r.st = vhNewPersistentB(r.base)
		if mapParent {
			r.pm, _ = NewMap(r.st, addr, NewDefaultDigesterBuilder(), vTypeInfo{id: 42})
		} else {
			r.pa, _ = NewArray(r.st, addr, vTypeInfo{id: 42})
		}
		for c := 0; c < nchild; c++ {
			var child Value
			if mapChildren {
				m, _ := NewMap(r.st, addr, NewDefaultDigesterBuilder(), vTypeInfo{id: 43})
				_, _ = m.Set(vhCompareBK, vhHipB, vBKey{val: 100}, vU64(cvals[c]))
				child = m
			} else {
				a, _ := NewArray(r.st, addr, vTypeInfo{id: 43})
				_ = a.Append(vU64(cvals[c]))
				child = a
			}
			if mapParent {
				_, _ = r.pm.Set(vhCompareBK, vhHipB, vBKey{val: uint64(c + 1)}, child)
			} else {
				_ = r.pa.Append(child)
			}
		}
		return r
	}
	reopen := func(r *run, st *PersistentSlabStorage, rootID SlabID) bool {
		r.st = st
		if mapParent {
			m, err := NewMapWithRootID(st, rootID, NewDefaultDigesterBuilder())
			vhAssert(err == nil, "reopen parent map")
			r.pm = m
			return err == nil
		}
		a, err := NewArrayWithRootID(st, rootID)
		vhAssert(err == nil, "reopen parent array")
		r.pa = a
		return err == nil
	}
	child := func(r *run, c int) (Value, bool) {
		var v Value
		var err error
		if mapParent {
			v, err = r.pm.Get(vhCompareBK, vhHipB, vBKey{val: uint64(c + 1)})
		} else {
			v, err = r.pa.Get(uint64(c))
		}
		vhAssert(err == nil, "get child")
		return v, err == nil
	}
	typeOf := func(v Value) TypeInfo {
		switch x := v.(type) {
		case *Array:
			return x.Type()
		case *OrderedMap:
			return x.Type()
		}
		return nil
	}
	setType := func(v Value, t TypeInfo) error {
		switch x := v.(type) {
		case *Array:
			return x.SetType(t)
		case *OrderedMap:
			return x.SetType(t)
		}
		return nil
	}
	warm, cold := mk(), mk()
	var rootID SlabID
	if mapParent {
		rootID = warm.pm.SlabID()
	} else {
		rootID = warm.pa.SlabID()
	}
	vhAssert(cold.st.FastCommit(1) == nil, "commit")
	switch vhChoose("schedule", 2) {
	case 0:
		cold.st.DropCache()
		if !reopen(cold, cold.st, rootID) {
			return
		}
	case 1:
		if !reopen(cold, vhNewPersistentB(cold.base), rootID) {
			return
		}
	}
	target := vhChoose("target", nchild)
	for _, r := range []*run{warm, cold} {
		v, ok := child(r, target)
		if !ok {
			return
		}
		vhAssert(setType(v, vTypeInfo{id: 44}) == nil, "type change on one child")
	}
	check := func(r *run, what string) {
		for c := 0; c < nchild; c++ {
			v, ok := child(r, c)
			if !ok {
				return
			}
			want := uint64(43)
			if c == target {
				want = 44
			}
			vhAssert(vhTic(typeOf(v), vTypeInfo{id: want}), what+": every child reports its own type")
		}
	}
	check(warm, "warm")
	check(cold, "reloaded")
	vhAssert(warm.st.FastCommit(1) == nil, "final commit (warm)")
	vhAssert(cold.st.FastCommit(1) == nil, "final commit (cold)")
	vhSameRegisters(warm.base, cold.base, "final ledger")
	// a brand-new storage over the registers sees the same types
	if reopen(cold, vhNewPersistentB(cold.base), rootID) {
		check(cold, "reopened after commit")
	}
	vhReach("sibling-types-done")
}

// Sibling isolation after a reload: containers decoded from one register may
// share decoder-side tables (type information, digests, keys). A content
// mutation of ONE nested child through a handle obtained after the reload
// changes that child only: every sibling keeps its content, warm and cold runs
// agree, both stay structurally valid and commit to identical registers.
//
//vh:prop C08 C10 C07 C03 C13
//vh:init cbor
//vh:sched first
//vh:param children 2 3
func VH_C08_SiblingIsolation() {
	vhSetThreshold(256)
	nchild := 2 + vhChoose("nchild", vhParam("children", 2)-1)
	kind := vhChoose("kind", 3) // arrays, maps, same-typed composite maps (compact encoding)
	mapChildren := kind >= 1
	var childType TypeInfo = vTypeInfo{id: 43}
	if kind == 2 {
		childType = vCompositeTypeInfo{id: 7}
	}
	mapParent := vhChoose("parentkind", 2) == 1
	addr := vhAddr(1)
	cvals := make([][2]uint64, nchild)
	for c := range cvals {
		cvals[c][0] = vhRange("cval", 0, 300) // 1-, 2- and 3-byte encodings
		cvals[c][1] = uint64(1000 + c)
	}
	type run struct {
		base *vBase
		st   *PersistentSlabStorage
		pa   *Array
		pm   *OrderedMap
	}
	mk := func() *run {
		r := &run{base: newVBase()}
		r.st = vhNewPersistentB(r.base)
		if mapParent {
			r.pm, _ = NewMap(r.st, addr, NewDefaultDigesterBuilder(), vTypeInfo{id: 42})
		} else {
			r.pa, _ = NewArray(r.st, addr, vTypeInfo{id: 42})
		}
		for c := 0; c < nchild; c++ {
			var child Value
			if mapChildren {
				m, _ := NewMap(r.st, addr, NewDefaultDigesterBuilder(), childType)
				_, _ = m.Set(vhCompareBK, vhHipB, vBKey{val: 100}, vU64(cvals[c][0]))
				_, _ = m.Set(vhCompareBK, vhHipB, vBKey{val: 101}, vU64(cvals[c][1]))
				child = m
			} else {
				a, _ := NewArray(r.st, addr, vTypeInfo{id: 43})
				_ = a.Append(vU64(cvals[c][0]))
				_ = a.Append(vU64(cvals[c][1]))
				child = a
			}
			if mapParent {
				_, _ = r.pm.Set(vhCompareBK, vhHipB, vBKey{val: uint64(c + 1)}, child)
			} else {
				_ = r.pa.Append(child)
			}
		}
		return r
	}
	reopen := func(r *run, st *PersistentSlabStorage, rootID SlabID) bool {
		r.st = st
		if mapParent {
			m, err := NewMapWithRootID(st, rootID, NewDefaultDigesterBuilder())
			vhAssert(err == nil, "reopen parent map")
			r.pm = m
			return err == nil
		}
		a, err := NewArrayWithRootID(st, rootID)
		vhAssert(err == nil, "reopen parent array")
		r.pa = a
		return err == nil
	}
	child := func(r *run, c int) (Value, bool) {
		var v Value
		var err error
		if mapParent {
			v, err = r.pm.Get(vhCompareBK, vhHipB, vBKey{val: uint64(c + 1)})
		} else {
			v, err = r.pa.Get(uint64(c))
		}
		vhAssert(err == nil, "get child")
		return v, err == nil
	}
	// read field k (0/1) of a child; ok=false if absent
	field := func(v Value, k int) (uint64, bool) {
		switch x := v.(type) {
		case *Array:
			if uint64(k) >= x.Count() {
				return 0, false
			}
			e, err := x.Get(uint64(k))
			if err != nil {
				return 0, false
			}
			u, ok := e.(vU64)
			return uint64(u), ok
		case *OrderedMap:
			e, err := x.Get(vhCompareBK, vhHipB, vBKey{val: uint64(100 + k)})
			if err != nil {
				return 0, false
			}
			u, ok := e.(vU64)
			return uint64(u), ok
		}
		return 0, false
	}
	warm, cold := mk(), mk()
	var rootID SlabID
	if mapParent {
		rootID = warm.pm.SlabID()
	} else {
		rootID = warm.pa.SlabID()
	}
	vhAssert(cold.st.FastCommit(1) == nil, "commit")
	if vhChoose("schedule", 2) == 0 {
		cold.st.DropCache()
		if !reopen(cold, cold.st, rootID) {
			return
		}
	} else if !reopen(cold, vhNewPersistentB(cold.base), rootID) {
		return
	}
	target := vhChoose("target", nchild)
	op := vhChoose("op", 4)
	newv := vhRange("newval", 0, 300)
	for _, r := range []*run{warm, cold} {
		v, ok := child(r, target)
		if !ok {
			return
		}
		switch x := v.(type) {
		case *Array:
			switch op {
			case 0:
				s, err := x.Remove(0)
				vhAssert(err == nil, "child remove")
				_ = s
			case 1:
				_, err := x.Set(0, vU64(newv))
				vhAssert(err == nil, "child set")
			case 2:
				vhAssert(x.Append(vU64(newv)) == nil, "child append")
			case 3:
				vhAssert(x.PopIterate(func(Storable) {}) == nil, "child bulk pop")
			}
		case *OrderedMap:
			switch op {
			case 0:
				_, _, err := x.Remove(vhCompareBK, vhHipB, vBKey{val: 100})
				vhAssert(err == nil, "child remove field")
			case 1:
				_, err := x.Set(vhCompareBK, vhHipB, vBKey{val: 100}, vU64(newv))
				vhAssert(err == nil, "child overwrite field")
			case 2:
				_, err := x.Set(vhCompareBK, vhHipB, vBKey{val: 999}, vU64(newv))
				vhAssert(err == nil, "child add field")
			case 3:
				vhAssert(x.PopIterate(func(Storable, Storable) {}) == nil, "child bulk pop")
			}
		}
	}
	check := func(r *run, what string) {
		for c := 0; c < nchild; c++ {
			v, ok := child(r, c)
			if !ok {
				return
			}
			if c == target {
				continue
			}
			for k := 0; k < 2; k++ {
				got, ok := field(v, k)
				vhAssert(ok, what+": sibling fields stay readable")
				if ok {
					vhAssert(got == cvals[c][k], what+": sibling content unchanged")
				}
			}
			// every way of enumerating the sibling agrees with the lookups (C13)
			switch x := v.(type) {
			case *Array:
				n1, n2 := 0, 0
				e1 := x.IterateReadOnly(func(Value) (bool, error) { n1++; return true, nil })
				e2 := x.Iterate(func(Value) (bool, error) { n2++; return true, nil })
				vhAssert(e1 == nil && e2 == nil && n1 == 2 && n2 == 2, what+": sibling enumerates fully, read-only and mutable")
			case *OrderedMap:
				n1, n2, n3 := 0, 0, 0
				e1 := x.IterateReadOnly(func(Value, Value) (bool, error) { n1++; return true, nil })
				e2 := x.Iterate(vhCompareBK, vhHipB, func(Value, Value) (bool, error) { n2++; return true, nil })
				e3 := x.IterateKeys(vhCompareBK, vhHipB, func(Value) (bool, error) { n3++; return true, nil })
				vhAssert(e1 == nil && e2 == nil && e3 == nil && n1 == 2 && n2 == 2 && n3 == 2, what+": sibling enumerates fully, read-only and mutable")
			}
		}
		// the target agrees between runs (compared below) and the parent is valid
		if mapParent {
			vhAssert(VerifyMap(r.pm, addr, vTypeInfo{id: 42}, vhTic, vhHipB, true) == nil, what+": parent valid")
		} else {
			vhAssert(VerifyArray(r.pa, addr, vTypeInfo{id: 42}, vhTic, vhHipB, true) == nil, what+": parent valid")
		}
	}
	check(warm, "warm")
	check(cold, "reloaded")
	wv, _ := child(warm, target)
	cv, _ := child(cold, target)
	for k := 0; k < 2; k++ {
		a, aok := field(wv, k)
		b, bok := field(cv, k)
		vhAssert(aok == bok, "target child: same fields warm and reloaded")
		if aok && bok {
			vhAssert(a == b, "target child: same values warm and reloaded")
		}
	}
	vhAssert(warm.st.FastCommit(1) == nil, "final commit (warm)")
	vhAssert(cold.st.FastCommit(1) == nil, "final commit (cold)")
	if kind != 2 {
		// (registers of compact maps may legitimately differ after a reload)
		vhSameRegisters(warm.base, cold.base, "final ledger")
	}
	if reopen(cold, vhNewPersistentB(cold.base), rootID) {
		check(cold, "reopened after commit")
	}
	vhReach("sibling-isolation-done")
}
