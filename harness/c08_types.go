//go:build verif

package atree

// Nested containers of EQUAL type inside one parent slab: the encoder stores
// one type-information entry for all of them and the decoder hands each child
// a reference into that table. A type change on one child (through a handle
// obtained before or after a reload) changes that child only; the siblings
// keep their type in memory, after the next commit and after reopening.
// Warm (never reloaded) and cold (committed, reloaded) runs must agree, and
// their final registers must be byte-identical.
//
//vh:prop C08 C01 C02 C10
//vh:init cbor
//vh:sched first
//vh:param children 2 3
func VH_C08_SiblingTypes() {
	vhSetThreshold(256)
	nchild := 2 + vhChoose("nchild", vhParam("children", 2)-1)
	mapChildren := vhChoose("kind", 2) == 1
	mapParent := vhChoose("parentkind", 2) == 1
	addr := vhAddr(1)
	type run struct {
		base *vBase
		st   *PersistentSlabStorage
		pa   *Array
		pm   *OrderedMap
	}
	// child contents: symbolic values (every CBOR width)
	cvals := make([]uint64, nchild)
	for c := range cvals {
		cvals[c] = vhU64("cval")
	}
	mk := func() *run {
		r := &run{base: newVBase()}
		r.st = vhNewPersistentB(r.base)
		if mapParent {
			r.pm, _ = NewMap(r.st, addr, NewDefaultDigesterBuilder(), vTypeInfo{id: 42})
		} else {
			r.pa, _ = NewArray(r.st, addr, vTypeInfo{id: 42})
		}
		for c := 0; c < nchild; c++ {
			var child Value
			if mapChildren {
				m, _ := NewMap(r.st, addr, NewDefaultDigesterBuilder(), vTypeInfo{id: 43})
				_, _ = m.Set(vhCompareBK, vhHipB, vBKey{val: 100}, vU64(cvals[c]))
				child = m
			} else {
				a, _ := NewArray(r.st, addr, vTypeInfo{id: 43})
				_ = a.Append(vU64(cvals[c]))
				child = a
			}
			if mapParent {
				_, _ = r.pm.Set(vhCompareBK, vhHipB, vBKey{val: uint64(c + 1)}, child)
			} else {
				_ = r.pa.Append(child)
			}
		}
		return r
	}
	reopen := func(r *run, st *PersistentSlabStorage, rootID SlabID) bool {
		r.st = st
		if mapParent {
			m, err := NewMapWithRootID(st, rootID, NewDefaultDigesterBuilder())
			vhAssert(err == nil, "reopen parent map")
			r.pm = m
			return err == nil
		}
		a, err := NewArrayWithRootID(st, rootID)
		vhAssert(err == nil, "reopen parent array")
		r.pa = a
		return err == nil
	}
	child := func(r *run, c int) (Value, bool) {
		var v Value
		var err error
		if mapParent {
			v, err = r.pm.Get(vhCompareBK, vhHipB, vBKey{val: uint64(c + 1)})
		} else {
			v, err = r.pa.Get(uint64(c))
		}
		vhAssert(err == nil, "get child")
		return v, err == nil
	}
	typeOf := func(v Value) TypeInfo {
		switch x := v.(type) {
		case *Array:
			return x.Type()
		case *OrderedMap:
			return x.Type()
		}
		return nil
	}
	setType := func(v Value, t TypeInfo) error {
		switch x := v.(type) {
		case *Array:
			return x.SetType(t)
		case *OrderedMap:
			return x.SetType(t)
		}
		return nil
	}
	warm, cold := mk(), mk()
	var rootID SlabID
	if mapParent {
		rootID = warm.pm.SlabID()
	} else {
		rootID = warm.pa.SlabID()
	}
	vhAssert(cold.st.FastCommit(1) == nil, "commit")
	switch vhChoose("schedule", 2) {
	case 0:
		cold.st.DropCache()
		if !reopen(cold, cold.st, rootID) {
			return
		}
	case 1:
		if !reopen(cold, vhNewPersistentB(cold.base), rootID) {
			return
		}
	}
	target := vhChoose("target", nchild)
	for _, r := range []*run{warm, cold} {
		v, ok := child(r, target)
		if !ok {
			return
		}
		vhAssert(setType(v, vTypeInfo{id: 44}) == nil, "type change on one child")
	}
	check := func(r *run, what string) {
		for c := 0; c < nchild; c++ {
			v, ok := child(r, c)
			if !ok {
				return
			}
			want := uint64(43)
			if c == target {
				want = 44
			}
			vhAssert(vhTic(typeOf(v), vTypeInfo{id: want}), what+": every child reports its own type")
		}
	}
	check(warm, "warm")
	check(cold, "reloaded")
	vhAssert(warm.st.FastCommit(1) == nil, "final commit (warm)")
	vhAssert(cold.st.FastCommit(1) == nil, "final commit (cold)")
	vhSameRegisters(warm.base, cold.base, "final ledger")
	// a brand-new storage over the registers sees the same types
	if reopen(cold, vhNewPersistentB(cold.base), rootID) {
		check(cold, "reopened after commit")
	}
	vhReach("sibling-types-done")
}
