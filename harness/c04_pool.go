//go:build verif

package atree

import (
	"fmt"
	"sync"
)

// C04 / C16 / C02: object-pool reuse is transparent. Whatever state an object
// is in when it goes back to one of the process-wide pools, the object handed
// out next behaves like a fresh one (the pool model hands back the most
// recently returned object, the worst case for stale state).

//vh:prop C04 C16 C02
func VH_C04_PoolReuse() {
	switch vhChoose("pool", 3) {
	case 0: // digester pool
		d := getBasicDigester()
		d.circleHash64 = vhU64("h0")
		for i := range d.blake3Hash {
			d.blake3Hash[i] = vhU64("h")
		}
		d.msg = []byte{vhU8("m"), vhU8("m")}
		putDigester(d)
		d2 := getBasicDigester()
		vhAssert(d2.circleHash64 == 0, "recycled digester: first-level digest cleared")
		// (compared with the zero value rather than with the library's own sentinel, so
		// that this file keeps building if the sentinel is renamed or removed)
		var zeroHash [4]uint64
		vhAssert(d2.blake3Hash == zeroHash, "recycled digester: deeper digests cleared")
		vhAssert(d2.msg == nil, "recycled digester: message cleared")
		// a non-pooled digester is never put into the pool
		own := &vDigester{levels: 4}
		putDigester(own)
		d3 := getBasicDigester()
		vhAssert(d3 != nil, "pool hands out basic digesters only")
	case 1: // encode buffer pool
		b := getBuffer()
		n := vhChoose("n", 4)
		for i := 0; i < n; i++ {
			b.WriteByte(vhU8("junk"))
		}
		putBuffer(b)
		b2 := getBuffer()
		vhAssert(b2.Len() == 0, "recycled buffer is empty")
		b2.WriteByte(7)
		vhAssert(b2.Len() == 1 && b2.Bytes()[0] == 7, "recycled buffer holds only what is written after reuse")
	case 2: // type id buffer pool
		b := getTypeIDBuffer()
		n := vhChoose("n", 4)
		for i := 0; i < n; i++ {
			b.WriteByte(vhU8("junk"))
		}
		putTypeIDBuffer(b)
		b2 := getTypeIDBuffer()
		vhAssert(b2.Len() == 0, "recycled type-id buffer is empty")
	}
	vhReach("pool-done")
}

// vFailEnc: an element whose encoding fails (a client Storable error).
type vFailEnc struct{}

var _ Value = vFailEnc{}
var _ Storable = vFailEnc{}

func (v vFailEnc) Storable(SlabStorage, Address, uint32) (Storable, error) { return v, nil }
func (v vFailEnc) Encode(*Encoder) error                                   { return fmt.Errorf("injected element encode failure") }
func (v vFailEnc) ByteSize() uint32                                        { return 1 }
func (v vFailEnc) StoredValue(SlabStorage) (Value, error)                  { return v, nil }
func (v vFailEnc) ChildStorables() []Storable                              { return nil }
func (v vFailEnc) CanCopyNonRefSimple() bool                               { return true }
func (v vFailEnc) CopyNonRefSimple() (Storable, error)                     { return v, nil }

// Pool discipline of the real slab encoders (C16: independent goroutines must
// not observe each other through the process-wide pools): after an encode --
// successful or failing at any element -- every pooled buffer has been
// returned exactly once, so two consecutive Gets never hand out one object.
//
//vh:prop C16 C04
//vh:init cbor
func VH_C16_EncoderPoolDiscipline() {
	vhSetThreshold(256)
	storage := vhNewByteStorage()
	addr := vhAddr(1)
	var root Slab
	failAt := vhChoose("failat", 3) // 0: no failure; 1/2: first / second element fails to encode
	elem := func(i int) Value {
		if failAt == i+1 {
			return vFailEnc{}
		}
		return vU64(uint64(7 + i))
	}
	switch vhChoose("container", 3) {
	case 0:
		a, _ := NewArray(storage, addr, vTypeInfo{id: 42})
		_ = a.Append(elem(0))
		_ = a.Append(elem(1))
		root = a.root
	case 1:
		b := &vDigesterBuilder{levels: 4, known: map[uint64][4]uint64{}}
		m, _ := NewMap(storage, addr, b, vTypeInfo{id: 42})
		for i := 0; i < 2; i++ {
			k := vBKey{val: uint64(i + 1), d: [4]uint64{uint64(10 * (i + 1)), 1, 1, 1}}
			b.known[k.val] = k.d
			_, _ = m.Set(vhCompareBK, vhHip, k, elem(i))
		}
		root = m.root
	case 2: // array holding an inlined child array whose element fails
		a, _ := NewArray(storage, addr, vTypeInfo{id: 42})
		c, _ := NewArray(storage, addr, vTypeInfo{id: 43})
		_ = c.Append(elem(0))
		_ = a.Append(c)
		_ = a.Append(elem(1))
		root = a.root
	}
	_, err := EncodeSlab(root, storage.cborEncMode)
	vhAssert((err != nil) == (failAt != 0), "encode fails exactly when an element fails")
	b1 := getBuffer()
	b2 := getBuffer()
	vhAssert(b1 != b2, "a pooled buffer was returned twice (two goroutines could be handed the same buffer)")
	t1 := getTypeIDBuffer()
	t2 := getTypeIDBuffer()
	vhAssert(t1 != t2, "a pooled type-id buffer was returned twice")
	vhReach("pool-discipline-done")
}

// Independent client goroutines, each with its own storage and containers,
// run concurrently (modelled goroutines; the process-wide pools are
// scheduling points with Put->Get happens-before): every interleaving gives
// each client exactly the bytes it gets running alone, and the
// happens-before detector sees no unsynchronised sharing through pools or
// package-level settings.
//
//vh:prop C16
//vh:init cbor
//vh:param clients 2 2
func VH_C16_IndependentClients() {
	vhSetThreshold(256)
	nclients := vhParam("clients", 2)
	build := func(i int) []byte {
		storage := vhNewByteStorage()
		a, _ := NewArray(storage, vhAddr(byte(i+1)), vTypeInfo{id: 42})
		_ = a.Append(vU64(uint64(1000 * (i + 1))))
		_ = a.Append(vSomeValue{inner: vU64(uint64(7 + i))})
		data, err := EncodeSlab(a.root, storage.cborEncMode)
		if err != nil {
			return nil
		}
		return data
	}
	// optionally, an unrelated client's encode fails first (error paths must
	// leave the pools as they found them)
	if vhChoose("priorfailure", 2) == 1 {
		storage := vhNewByteStorage()
		b := &vDigesterBuilder{levels: 4, known: map[uint64][4]uint64{}}
		m, _ := NewMap(storage, vhAddr(9), b, vTypeInfo{id: 42})
		k := vBKey{val: 1, d: [4]uint64{10, 1, 1, 1}}
		b.known[1] = k.d
		_, _ = m.Set(vhCompareBK, vhHip, k, vFailEnc{})
		_, err := EncodeSlab(m.root, storage.cborEncMode)
		vhAssert(err != nil, "unrelated client's failing encode is reported")
	}
	// what each client gets running alone
	alone := make([][]byte, nclients)
	for i := range alone {
		alone[i] = build(i)
		vhAssert(alone[i] != nil, "sequential encode")
	}
	got := make([][]byte, nclients)
	var wg sync.WaitGroup
	wg.Add(nclients)
	for i := 0; i < nclients; i++ {
		i := i
		go func() {
			defer wg.Done()
			got[i] = build(i)
		}()
	}
	wg.Wait()
	for i := range got {
		vhAssert(len(got[i]) == len(alone[i]), "concurrent client gets the same register length as alone")
		if len(got[i]) == len(alone[i]) {
			same := true
			for k := range got[i] {
				same = vhAll(same, got[i][k] == alone[i][k])
			}
			vhAssert(same, "concurrent client gets the same bytes as alone")
		}
	}
	vhReach("clients-done")
}

// vhHipLow: a hash-input provider that only looks at the low 8 bits of the
// key: keys that differ above them collide on EVERY digest level of the
// default (pooled, CircleHash/BLAKE3) digester.
func vhHipLow(v Value, _ []byte) ([]byte, error) {
	switch k := v.(type) {
	case vBKey:
		return []byte{byte(k.val)}, nil
	case vU64: // the stored form of the key (existing keys are re-hashed from storage)
		return []byte{byte(k)}, nil
	}
	return nil, fmt.Errorf("unexpected key %T", v)
}

// Pool discipline of the pooled default digesters across map operations that
// hit REAL digest collisions (two different keys, equal digests on all
// levels): after every operation each digester taken from the process-wide
// pool has been returned exactly once, so two consecutive Gets never hand out
// one object (which two independent goroutines would otherwise share), and a
// later independent map sees no trace of the earlier keys.
//
//vh:prop C16 C04 C12 C13
//vh:param ops 3 4
func VH_C16_DigesterPoolDiscipline() {
	vhSetThreshold(256)
	storage := vhNewBasicStorage()
	addr := vhAddr(1)
	m, err := NewMap(storage, addr, NewDefaultDigesterBuilder(), vTypeInfo{id: 42})
	vhAssert(err == nil, "new map")
	if err != nil {
		return
	}
	// keys 1, 257, 513 collide pairwise on every level; 2 does not
	keys := []uint64{1, 257, 2, 513}
	present := map[uint64]uint64{}
	checkPool := func(what string) {
		d1 := getBasicDigester()
		d2 := getBasicDigester()
		vhAssert(d1 != d2, what+": a pooled digester was returned twice")
		putDigester(d2)
		putDigester(d1)
	}
	nops := vhParam("ops", 3)
	for op := 0; op < nops; op++ {
		k := keys[vhChoose("key", len(keys))]
		key := vBKey{val: k}
		switch vhChoose("op", 4) {
		case 0:
			val := vhRange("val", 0, 70000)
			_, err := m.Set(vhCompareBK, vhHipLow, key, vU64(val))
			vhAssert(err == nil, "set")
			present[k] = val
		case 1:
			v, err := m.Get(vhCompareBK, vhHipLow, key)
			if want, ok := present[k]; ok {
				vhAssert(err == nil, "get present")
				if err == nil {
					vhAssert(uint64(v.(vU64)) == want, "get present: value")
				}
			} else {
				vhAssert(vhIsKeyNotFound(err), "get absent")
			}
		case 2:
			_, _, err := m.Remove(vhCompareBK, vhHipLow, key)
			if _, ok := present[k]; ok {
				vhAssert(err == nil, "remove present")
				delete(present, k)
			} else {
				vhAssert(vhIsKeyNotFound(err), "remove absent")
			}
		case 3:
			has, err := m.Has(vhCompareBK, vhHipLow, key)
			_, ok := present[k]
			vhAssert(err == nil && has == ok, "has")
		}
		checkPool("after operation")
	}
	vhAssert(m.Count() == uint64(len(present)), "count")
	verr := VerifyMap(m, addr, vTypeInfo{id: 42}, vhTic, vhHipLow, true)
	vhAssert(verr == nil, "map valid")
	checkPool("after verify")
	// every MUTABLE enumeration flavour (keyed next-key lookups with pooled
	// digesters) agrees with the read-only one, and leaves the pool in order
	var ro []uint64
	err = m.IterateReadOnly(func(k, v Value) (bool, error) {
		ro = append(ro, uint64(k.(vU64)))
		return true, nil
	})
	vhAssert(err == nil, "read-only enumeration")
	var mu []uint64
	switch vhChoose("flavour", 3) {
	case 0:
		err = m.Iterate(vhCompareBK, vhHipLow, func(k, v Value) (bool, error) {
			mu = append(mu, uint64(k.(vU64)))
			return true, nil
		})
	case 1:
		err = m.IterateKeys(vhCompareBK, vhHipLow, func(k Value) (bool, error) {
			mu = append(mu, uint64(k.(vU64)))
			return true, nil
		})
	case 2:
		it, ierr := m.Iterator(vhCompareBK, vhHipLow)
		vhAssert(ierr == nil, "iterator")
		if ierr == nil {
			for {
				k, _, nerr := it.Next()
				if nerr != nil {
					err = nerr
					break
				}
				if k == nil {
					break
				}
				mu = append(mu, uint64(k.(vU64)))
			}
		}
	}
	vhAssert(err == nil, "mutable enumeration over real collisions: no error")
	vhSameSeq(mu, ro, "mutable enumeration equals the read-only one")
	checkPool("after mutable enumeration")
	vhReach("digester-pool-done")
}

// vFailStorable: a value whose Storable() fails (a caller-supplied component error).
type vFailStorable struct{}

var _ Value = vFailStorable{}

func (vFailStorable) Storable(SlabStorage, Address, uint32) (Storable, error) {
	return nil, fmt.Errorf("injected Storable failure")
}

// The batch map builder with the pooled default digesters: a source map with
// REAL full collisions (1, 257, 513 and 2, 258 collide pairwise) is streamed, in
// its own order and with its seed, into NewMapFromBatchData; by choice one
// element's value fails to become a storable (error path). Afterwards two
// consecutive Gets from the digester pool return different objects (no
// digester was returned twice), a successful build equals the source and is
// valid, and an independent map built next is unaffected.
//
//vh:prop C16 C17 C04
func VH_C16_BatchDigesterPoolDiscipline() {
	vhSetThreshold(256)
	storage := vhNewBasicStorage()
	addr := vhAddr(1)
	src, err := NewMap(storage, addr, NewDefaultDigesterBuilder(), vTypeInfo{id: 42})
	vhAssert(err == nil, "new map")
	if err != nil {
		return
	}
	all := []uint64{1, 257, 513, 2, 258, 3}
	nkeys := 3 + vhChoose("nkeys", 4)
	for _, k := range all[:nkeys] {
		_, err := src.Set(vhCompareBK, vhHipLow, vBKey{val: k}, vU64(k+1000))
		vhAssert(err == nil, "source set")
	}
	var ks, vs []uint64
	_ = src.IterateReadOnly(func(k, v Value) (bool, error) {
		ks = append(ks, uint64(k.(vU64)))
		vs = append(vs, uint64(v.(vU64)))
		return true, nil
	})
	failAt := vhChoose("failat", len(ks)+1) // len(ks) = no failure
	i := 0
	m, berr := NewMapFromBatchData(storage, addr, NewDefaultDigesterBuilder(), vTypeInfo{id: 42}, vhCompareBK, vhHipLow, src.Seed(),
		func() (Value, Value, error) {
			if i >= len(ks) {
				return nil, nil, nil
			}
			k, v := ks[i], vs[i]
			i++
			if i-1 == failAt {
				return vBKey{val: k}, vFailStorable{}, nil
			}
			return vBKey{val: k}, vU64(v), nil
		})
	d1 := getBasicDigester()
	d2 := getBasicDigester()
	vhAssert(d1 != d2, "after the batch build: a pooled digester was returned twice")
	putDigester(d2)
	putDigester(d1)
	if failAt < len(ks) {
		vhAssert(berr != nil, "failing element makes the build fail")
	} else {
		vhAssert(berr == nil, "batch build succeeds")
		if berr == nil {
			vhAssert(m.Count() == uint64(len(ks)), "built map count")
			vhAssert(VerifyMap(m, addr, vTypeInfo{id: 42}, vhTic, vhHipLow, true) == nil, "built map valid")
			for j, k := range ks {
				v, gerr := m.Get(vhCompareBK, vhHipLow, vBKey{val: k})
				vhAssert(gerr == nil, "built map has every source key")
				if gerr == nil {
					vhAssert(uint64(v.(vU64)) == vs[j], "built map value")
				}
			}
		}
	}
	// an independent map used afterwards behaves as if alone
	other, _ := NewMap(storage, vhAddr(2), NewDefaultDigesterBuilder(), vTypeInfo{id: 43})
	for _, k := range []uint64{7, 263, 8} {
		_, err := other.Set(vhCompareBK, vhHipLow, vBKey{val: k}, vU64(k))
		vhAssert(err == nil, "independent map set")
	}
	for _, k := range []uint64{7, 263, 8} {
		v, gerr := other.Get(vhCompareBK, vhHipLow, vBKey{val: k})
		vhAssert(gerr == nil, "independent map finds what it stored")
		if gerr == nil {
			vhAssert(uint64(v.(vU64)) == k, "independent map value")
		}
	}
	vhAssert(VerifyMap(other, vhAddr(2), vTypeInfo{id: 43}, vhTic, vhHipLow, true) == nil, "independent map valid")
	vhReach("batch-digester-pool-done")
}

// Encoding is a function of the slab content only: with Go map iteration
// explored in EVERY order (maporder any), encoding the same slab twice gives
// identical bytes. The slab holds several inlined children whose type
// information repeats (two distinct types, each used more than once, plus a
// type used once), so the shared type-information table and the references
// into it are exercised; children are arrays, maps, or compact (composite)
// maps.
//
//vh:prop C04
//vh:init cbor
//vh:maporder any
//vh:param pairs 2 3
func VH_C04_EncodingOrderIndependent() {
	vhSetThreshold(1024)
	storage := vhNewByteStorage()
	addr := vhAddr(1)
	kind := vhChoose("kind", 3)
	ntypes := vhParam("pairs", 2)
	parent, _ := NewArray(storage, addr, vTypeInfo{id: 42})
	mkChild := func(ty uint64, val uint64) Value {
		switch kind {
		case 0:
			a, _ := NewArray(storage, addr, vTypeInfo{id: ty})
			_ = a.Append(vU64(val))
			return a
		case 1:
			m, _ := NewMap(storage, addr, NewDefaultDigesterBuilder(), vTypeInfo{id: ty})
			_, _ = m.Set(vhCompareBK, vhHipB, vBKey{val: 100}, vU64(val))
			return m
		}
		m, _ := NewMap(storage, addr, NewDefaultDigesterBuilder(), vCompositeTypeInfo{id: ty})
		_, _ = m.Set(vhCompareBK, vhHipB, vBKey{val: 100}, vU64(val))
		_, _ = m.Set(vhCompareBK, vhHipB, vBKey{val: 101}, vU64(val+1))
		return m
	}
	// types 50, 51, (52) twice each, interleaved, then a type used once
	for rep := 0; rep < 2; rep++ {
		for t := 0; t < ntypes; t++ {
			_ = parent.Append(mkChild(uint64(50+t), uint64(10*rep+t)))
		}
	}
	_ = parent.Append(mkChild(60, 7))
	root := parent.root
	vhAssert(root.IsData(), "single slab")
	b1, err1 := EncodeSlab(root, storage.cborEncMode)
	b2, err2 := EncodeSlab(root, storage.cborEncMode)
	vhAssert(err1 == nil && err2 == nil, "encode")
	if err1 != nil || err2 != nil {
		return
	}
	vhAssert(len(b1) == len(b2), "same length under every map iteration order")
	if len(b1) == len(b2) {
		same := true
		for i := range b1 {
			same = vhAll(same, b1[i] == b2[i])
		}
		vhAssert(same, "same bytes under every map iteration order")
	}
	// and the register decodes back to the same children types
	s2, derr := DecodeSlab(root.SlabID(), b1, storage.cborDecMode, vhDecodeStorableB, vhDecodeTypeInfo)
	vhAssert(derr == nil, "decode")
	if derr == nil {
		b3, err3 := EncodeSlab(s2, storage.cborEncMode)
		vhAssert(err3 == nil && len(b3) == len(b1), "re-encode length")
		if err3 == nil && len(b3) == len(b1) {
			same := true
			for i := range b1 {
				same = vhAll(same, b1[i] == b3[i])
			}
			vhAssert(same, "re-encode of the decoded slab is identical")
		}
	}
	vhReach("order-independent-done")
}
