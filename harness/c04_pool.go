//go:build verif

package atree

// C04 / C16 / C02: object-pool reuse is transparent. Whatever state an object
// is in when it goes back to one of the process-wide pools, the object handed
// out next behaves like a fresh one (the pool model hands back the most
// recently returned object, the worst case for stale state).

//vh:prop C04 C16 C02
func VH_C04_PoolReuse() {
	switch vhChoose("pool", 3) {
	case 0: // digester pool
		d := getBasicDigester()
		d.circleHash64 = vhU64("h0")
		for i := range d.blake3Hash {
			d.blake3Hash[i] = vhU64("h")
		}
		d.msg = []byte{vhU8("m"), vhU8("m")}
		putDigester(d)
		d2 := getBasicDigester()
		vhAssert(d2.circleHash64 == 0, "recycled digester: first-level digest cleared")
		vhAssert(d2.blake3Hash == emptyBlake3Hash, "recycled digester: deeper digests cleared")
		vhAssert(d2.msg == nil, "recycled digester: message cleared")
		// a non-pooled digester is never put into the pool
		own := &vDigester{levels: 4}
		putDigester(own)
		d3 := getBasicDigester()
		vhAssert(d3 != nil, "pool hands out basic digesters only")
	case 1: // encode buffer pool
		b := getBuffer()
		n := vhChoose("n", 4)
		for i := 0; i < n; i++ {
			b.WriteByte(vhU8("junk"))
		}
		putBuffer(b)
		b2 := getBuffer()
		vhAssert(b2.Len() == 0, "recycled buffer is empty")
		b2.WriteByte(7)
		vhAssert(b2.Len() == 1 && b2.Bytes()[0] == 7, "recycled buffer holds only what is written after reuse")
	case 2: // type id buffer pool
		b := getTypeIDBuffer()
		n := vhChoose("n", 4)
		for i := 0; i < n; i++ {
			b.WriteByte(vhU8("junk"))
		}
		putTypeIDBuffer(b)
		b2 := getTypeIDBuffer()
		vhAssert(b2.Len() == 0, "recycled type-id buffer is empty")
	}
	vhReach("pool-done")
}
