//go:build verif

package atree

import (
	"errors"
	"fmt"
)

// C18: rejected requests are categorised and leave no trace; failures of
// caller-supplied components during lookups are external errors.

// vLogStorage wraps a BasicSlabStorage and counts mutations of the slab set
// (the pending write set changes only through Store/Remove).
type vLogStorage struct {
	*BasicSlabStorage
	writes int
	stored map[SlabID]bool // identifiers passed to Store since the last reset
	// fault injection on Retrieve: fail the k-th call (1-based); 0 = never
	retrFailAt int
	retrCalls  int
	// slabs reported as not loaded by RetrieveIfLoaded (partially loaded container)
	unloaded map[SlabID]bool
}

func (s *vLogStorage) RetrieveIfLoaded(id SlabID) Slab {
	if s.unloaded[id] {
		return nil
	}
	return s.BasicSlabStorage.RetrieveIfLoaded(id)
}

func (s *vLogStorage) Store(id SlabID, slab Slab) error {
	s.writes++
	if s.stored != nil {
		s.stored[id] = true
	}
	return s.BasicSlabStorage.Store(id, slab)
}
func (s *vLogStorage) Remove(id SlabID) error {
	s.writes++
	return s.BasicSlabStorage.Remove(id)
}
func (s *vLogStorage) Retrieve(id SlabID) (Slab, bool, error) {
	s.retrCalls++
	if s.retrFailAt != 0 && s.retrCalls == s.retrFailAt {
		return nil, false, fmt.Errorf("injected ledger read failure")
	}
	return s.BasicSlabStorage.Retrieve(id)
}

func vhIsUser(err error) bool {
	var e *UserError
	return errors.As(err, &e)
}
func vhIsFatal(err error) bool {
	var e *FatalError
	return errors.As(err, &e)
}

type vhSlabSnap struct {
	id          SlabID
	size, count uint32
}

func vhSnapArray(storage SlabStorage, id SlabID, out []vhSlabSnap) []vhSlabSnap {
	slab, ok, _ := storage.Retrieve(id)
	if !ok {
		return out
	}
	as := slab.(ArraySlab)
	h := as.Header()
	out = append(out, vhSlabSnap{id: id, size: h.size, count: h.count})
	if m, ok := slab.(*ArrayMetaDataSlab); ok {
		for _, c := range m.childrenHeaders {
			out = vhSnapArray(storage, c.slabID, out)
		}
	}
	return out
}

func vhSnapEqual(a, b []vhSlabSnap) bool {
	if len(a) != len(b) {
		return false
	}
	eq := true
	for i := range a {
		eq = vhAll(eq, a[i].id == b[i].id, a[i].size == b[i].size, a[i].count == b[i].count)
	}
	return eq
}

//vh:prop C18
//vh:param leaves 2 3
//vh:param perleaf 3 4
func VH_C18_ArrayRejected() {
	vhSetThreshold(256)
	storage := &vLogStorage{BasicSlabStorage: vhNewBasicStorage()}
	addr := vhAddr(1)
	a, model := vhBuildArray(storage, addr, vhArrayShape())
	n := uint64(len(model))
	before := vhSnapArray(storage, a.root.SlabID(), nil)
	storage.writes = 0
	op := vhChoose("op", 8)
	var err error
	wantIdx, wantSlice, wantInvalid := false, false, false
	switch op {
	case 7: // a ledger read fails during an in-range lookup / iteration: external error, nothing changes
		if n == 0 {
			return
		}
		i := uint64(vhChoose("idx", int(n)))
		storage.retrCalls = 0
		storage.retrFailAt = 1 + vhChoose("failat", 2)
		if vhChoose("api", 2) == 0 {
			_, err = a.Get(i)
		} else {
			err = a.IterateReadOnly(func(Value) (bool, error) { return true, nil })
		}
		injected := storage.retrCalls >= storage.retrFailAt
		storage.retrFailAt = 0
		if !injected {
			vhAssert(err == nil, "lookup without a failing read succeeds")
			return
		}
		vhAssert(err != nil, "failing ledger read surfaces")
		vhAssert(vhIsExternal(err), "failing ledger read is an external error")
	case 0:
		i := vhU64("idx")
		vhAssume(i >= n)
		_, err = a.Get(i)
		wantIdx = true
	case 1:
		i := vhU64("idx")
		vhAssume(i >= n)
		_, err = a.Set(i, vElem{tag: 7, size: vhRange32("newsz", 1, 300)})
		wantIdx = true
	case 2:
		i := vhU64("idx")
		vhAssume(i > n)
		err = a.Insert(i, vElem{tag: 7, size: vhRange32("newsz", 1, 300)})
		wantIdx = true
	case 3:
		i := vhU64("idx")
		vhAssume(i >= n)
		_, err = a.Remove(i)
		wantIdx = true
	case 4: // range beyond the end
		s, e := vhU64("start"), vhU64("end")
		vhAssume(vhAny(s > n, e > n))
		_, err = a.RangeIterator(s, e)
		wantSlice = true
	case 5: // start after end, both in range
		s, e := vhU64("start"), vhU64("end")
		vhAssume(vhAll(s <= n, e <= n, s > e))
		_, err = a.ReadOnlyRangeIterator(s, e)
		wantInvalid = true
	case 6: // undefined identifier
		_, err = NewArrayWithRootID(storage, SlabIDUndefined)
		vhAssert(err != nil, "undefined id: rejected")
		var sie *SlabIDError
		vhAssert(errors.As(err, &sie), "undefined id: names the cause")
		vhAssert(vhIsFatal(err) && !vhIsUser(err), "undefined id: internal-failure category")
	}
	vhAssert(err != nil, "rejected request returns an error")
	if wantIdx {
		var e *IndexOutOfBoundsError
		vhAssert(errors.As(err, &e), "index out of bounds: names the cause")
		vhAssert(vhIsUser(err) && !vhIsFatal(err), "index out of bounds: caller-mistake category")
	}
	if wantSlice {
		var e *SliceOutOfBoundsError
		vhAssert(errors.As(err, &e), "slice out of bounds: names the cause")
		vhAssert(vhIsUser(err) && !vhIsFatal(err), "slice out of bounds: caller-mistake category")
	}
	if wantInvalid {
		var e *InvalidSliceIndexError
		vhAssert(errors.As(err, &e), "invalid slice: names the cause")
		vhAssert(vhIsUser(err) && !vhIsFatal(err), "invalid slice: caller-mistake category")
	}
	vhAssert(storage.writes == 0, "rejected request stores/removes nothing")
	after := vhSnapArray(storage, a.root.SlabID(), nil)
	vhAssert(vhSnapEqual(before, after), "slab headers unchanged")
	vhCheckArray(a, addr, model, "after rejected request")
	vhReach("rejected-done")
}

//vh:prop C18
//vh:param leaves 2 2
//vh:param perleaf 3 4
func VH_C18_MapRejected() {
	vhSetThreshold(256)
	storage := &vLogStorage{BasicSlabStorage: vhNewBasicStorage()}
	addr := vhAddr(1)
	b := &vDigesterBuilder{levels: 4}
	m, model := vhBuildMap(storage, addr, b, vhMapShape())
	storage.writes = 0
	sizeBefore := m.root.Header().size
	op := vhChoose("op", 5)
	k := vhNewKey(9999) // absent key, arbitrary digests (below all, between, equal to an existing digest)
	switch op {
	case 0:
		_, err := m.Get(vhCompare, vhHip, k)
		vhAssert(err != nil, "get absent: error")
		vhAssert(vhIsKeyNotFound(err), "get absent: names the cause")
		vhAssert(vhIsUser(err) && !vhIsFatal(err), "get absent: caller-mistake category")
	case 1:
		_, _, err := m.Remove(vhCompare, vhHip, k)
		vhAssert(err != nil, "remove absent: error")
		vhAssert(vhIsKeyNotFound(err), "remove absent: names the cause")
		vhAssert(vhIsUser(err) && !vhIsFatal(err), "remove absent: caller-mistake category")
	case 2: // collision limit 0: a new key colliding with an existing first-level digest is refused
		if len(model) == 0 {
			return
		}
		maxCollisionLimitPerDigest = 0
		i := vhChoose("which", len(model))
		k.d[0] = model[i].key.d[0]
		_, err := m.Set(vhCompare, vhHip, k, vElem{tag: 1, size: vhRange32("vsz", 1, 50)})
		vhAssert(err != nil, "insert at limit: refused")
		vhAssert(vhIsCollisionLimit(err), "insert at limit: names the cause")
		vhAssert(vhIsFatal(err) && !vhIsUser(err), "insert at limit: limit category")
	case 3:
		_, err := NewMapWithRootID(storage, SlabIDUndefined, b)
		vhAssert(err != nil, "undefined id: rejected")
		var sie *SlabIDError
		vhAssert(errors.As(err, &sie), "undefined id: names the cause")
		vhAssert(vhIsFatal(err) && !vhIsUser(err), "undefined id: internal-failure category")
	case 4: // failures of caller-supplied components during a lookup are external errors
		which := vhChoose("component", 3)
		present := len(model) > 0 && vhChoose("present", 2) == 1
		key := k
		if present {
			key = model[vhChoose("which", len(model))].key
		}
		var err error
		switch which {
		case 0: // comparator
			cmp := func(s SlabStorage, v Value, st Storable) (bool, error) {
				return false, fmt.Errorf("injected comparator failure")
			}
			_, err = m.Get(cmp, vhHip, key)
			if vhIsKeyNotFound(err) {
				return // comparator never consulted on this path
			}
		case 1: // hash input provider
			hip := func(Value, []byte) ([]byte, error) { return nil, fmt.Errorf("injected hip failure") }
			_, err = m.Get(vhCompare, hip, key)
		case 2: // ledger read
			storage.retrCalls = 0
			storage.retrFailAt = 1
			_, err = m.Get(vhCompare, vhHip, key)
			if storage.retrCalls == 0 {
				return // single-slab map: no storage read on this path
			}
		}
		vhAssert(err != nil, "callback failure surfaces")
		vhAssert(vhIsExternal(err), "callback failure is an external error")
		storage.retrFailAt = 0
	}
	vhAssert(storage.writes == 0, "rejected request stores/removes nothing")
	vhAssert(m.root.Header().size == sizeBefore, "root size unchanged")
	vhCheckMap(m, addr, model, "after rejected request")
	vhReach("rejected-done")
}

// Callback failures during lookups in maps WITH collision groups (inline,
// external, nested, or last-level list): the k-th comparator call, the hash
// input provider, or the ledger read of an external group fails. The lookup
// must report an external error (never key-not-found, never a wrong "absent").
//
//vh:prop C18 C12
//vh:param singles 1 2
//vh:param gsize 3 3
func VH_C18_GroupLookupFaults() {
	vhSetThreshold(256)
	storage := &vLogStorage{BasicSlabStorage: vhNewBasicStorage()}
	addr := vhAddr(1)
	b := &vDigesterBuilder{levels: 4}
	if vhChoose("listmode", 2) == 1 {
		b.levels = 1
	}
	nsingle := vhChoose("nsingle", vhParam("singles", 1)+1)
	gsize := 2 + vhChoose("gsize", vhParam("gsize", 3)-1)
	gpos := vhChoose("gpos", nsingle+1)
	external := vhChoose("external", 2) == 1
	deep := b.levels > 1 && vhChoose("deep", 2) == 1
	m, model, gidx := vhBuildGroupMapDeep(storage, addr, b, nsingle, gsize, gpos, external, deep)
	storage.writes = 0
	gd0 := model[gidx[0]].key.d[0]
	// the key looked up: a group member, or an absent key colliding with the group
	var key vKey
	present := vhChoose("present", 2) == 1
	wantVal := uint64(0)
	if present {
		i := gidx[vhChoose("member", len(gidx))]
		key = model[i].key
		wantVal = model[i].val
	} else {
		key = vhNewKey(9999)
		key.d[0] = gd0
	}
	calls := 0
	failAt := 0
	cmp := func(s SlabStorage, v Value, st Storable) (bool, error) {
		calls++
		if calls == failAt {
			return false, fmt.Errorf("injected comparator failure")
		}
		return vhCompare(s, v, st)
	}
	hip := vhHip
	injected := false
	switch vhChoose("component", 3) {
	case 0:
		failAt = 1 + vhChoose("failat", gsize)
	case 1:
		hip = func(Value, []byte) ([]byte, error) { return nil, fmt.Errorf("injected hip failure") }
		injected = true
	case 2:
		storage.retrCalls = 0
		storage.retrFailAt = 1
	}
	var err error
	var v Value
	has := false
	useHas := vhChoose("api", 2) == 1
	if useHas {
		has, err = m.Has(cmp, hip, key)
	} else {
		v, err = m.Get(cmp, hip, key)
	}
	if failAt != 0 && calls >= failAt {
		injected = true
	}
	if storage.retrFailAt != 0 && storage.retrCalls >= 1 {
		injected = true
	}
	storage.retrFailAt = 0
	if injected {
		vhAssert(err != nil, "callback failure surfaces")
		vhAssert(vhIsExternal(err), "callback failure is an external error")
		vhAssert(!vhIsKeyNotFound(err), "callback failure is not reported as key-not-found")
	} else if present {
		vhAssert(err == nil, "lookup of a present key succeeds")
		if err == nil {
			if useHas {
				vhAssert(has, "present key: has")
			} else {
				vhAssert(vhTagOf(v) == wantVal, "present key: value")
			}
		}
	} else {
		if useHas {
			vhAssert(err == nil && !has, "absent key: has reports false")
		} else {
			vhAssert(vhIsKeyNotFound(err), "absent key: key-not-found")
		}
	}
	vhAssert(storage.writes == 0, "lookup stores/removes nothing")
	vhCheckMap(m, addr, model, "after faulty lookup")
	vhReach("group-faults-done")
}

// The same faults during the lookups an INSERT or UPDATE makes on its way: the
// collision-limit probe of a group that is at the limit (a Get in disguise),
// the element count of an external group (a ledger read), and the search in
// the group itself. A caller-supplied component that fails from its k-th call
// on makes the request fail with an external error -- never with the
// collision-limit error, never key-not-found -- and the map is as it was. With
// healthy components the same request gives the collision-limit error for an
// absent key at the limit and succeeds for a present one.
//
//vh:prop C18 C12
//vh:param singles 1 2
//vh:param gsize 3 3
func VH_C18_GroupSetFaults() {
	vhSetThreshold(256)
	storage := &vLogStorage{BasicSlabStorage: vhNewBasicStorage()}
	addr := vhAddr(1)
	b := &vDigesterBuilder{levels: 4}
	if vhChoose("listmode", 2) == 1 {
		b.levels = 1
	}
	nsingle := vhChoose("nsingle", vhParam("singles", 1)+1)
	gsize := 2 + vhChoose("gsize", vhParam("gsize", 3)-1)
	gpos := vhChoose("gpos", nsingle+1)
	external := vhChoose("external", 2) == 1
	deep := b.levels > 1 && vhChoose("deep", 2) == 1
	m, model, gidx := vhBuildGroupMapDeep(storage, addr, b, nsingle, gsize, gpos, external, deep)
	// the limit counts the entries of the first-level group (distinct second-level
	// digests): a group whose members all sit in one nested group counts as one
	atLimit := !deep && vhChoose("atlimit", 2) == 1
	if atLimit {
		maxCollisionLimitPerDigest = uint32(gsize - 1)
	}
	storage.writes = 0
	gd0 := model[gidx[0]].key.d[0]
	var key vKey
	present := vhChoose("present", 2) == 1
	if present {
		key = model[gidx[vhChoose("member", len(gidx))]].key
	} else {
		key = vhNewKey(9999)
		key.d[0] = gd0
	}
	calls := 0
	failFrom := 0
	cmp := func(s SlabStorage, v Value, st Storable) (bool, error) {
		calls++
		if failFrom != 0 && calls >= failFrom {
			return false, fmt.Errorf("injected comparator failure")
		}
		return vhCompare(s, v, st)
	}
	injected := false
	switch vhChoose("component", 3) {
	case 0:
		failFrom = 1 + vhChoose("failfrom", gsize)
	case 1:
		storage.retrCalls = 0
		storage.retrFailAt = 1
	case 2:
		// healthy components
	}
	old, err := m.Set(cmp, vhHip, key, vElem{tag: 4242, size: 9})
	if failFrom != 0 && calls >= failFrom {
		injected = true
	}
	if storage.retrFailAt != 0 && storage.retrCalls >= 1 {
		injected = true
	}
	storage.retrFailAt = 0
	maxCollisionLimitPerDigest = 255
	if injected {
		vhAssert(err != nil, "set: callback failure surfaces")
		vhAssert(vhIsExternal(err), "set: callback failure is an external error")
		vhAssert(!vhIsCollisionLimit(err), "set: callback failure is not reported as the collision limit")
		vhAssert(!vhIsKeyNotFound(err), "set: callback failure is not reported as key-not-found")
		vhAssert(storage.writes == 0, "set: failed request stores/removes nothing")
		vhCheckMap(m, addr, model, "after faulty set")
		vhReach("group-set-faulted")
		return
	}
	if !present && atLimit {
		vhAssert(vhIsCollisionLimit(err), "set: absent key at the limit is refused with the collision-limit error")
		vhAssert(storage.writes == 0, "set: refused request stores/removes nothing")
		vhCheckMap(m, addr, model, "after refused set")
		vhReach("group-set-refused")
		return
	}
	vhAssert(err == nil, "set: healthy request succeeds")
	if err == nil {
		vhAssert((old != nil) == present, "set: previous value returned exactly for a present key")
	}
	vhReach("group-set-done")
}

// A failing LEDGER read during a lookup on a container opened cold over a
// persistent storage (real codec): the lookup reports an external error, and
// nothing is remembered about the failure -- the same lookup through the same
// storage succeeds once the ledger answers again, with the right value, and
// the container is intact. Array and map parents spanning several slabs, a
// nested child by choice; the k-th ledger read fails.
//
//vh:prop C18 C08
//vh:init cbor
//vh:sched first
func VH_C18_LedgerReadFaults() {
	vhSetThreshold(256)
	base := newVBase()
	st := vhNewPersistentB(base)
	addr := vhAddr(1)
	isMap := vhChoose("kind", 2) == 1
	const n = 6
	var rootID SlabID
	var arr *Array
	var mp *OrderedMap
	if isMap {
		mp, _ = NewMap(st, addr, NewDefaultDigesterBuilder(), vTypeInfo{id: 42})
		for i := 0; i < n; i++ {
			_, _ = mp.Set(vhCompareBK, vhHipB, vBKey{val: uint64(i + 1)}, vBlob{n: 60 + i})
		}
		rootID = mp.SlabID()
	} else {
		arr, _ = NewArray(st, addr, vTypeInfo{id: 42})
		for i := 0; i < n; i++ {
			_ = arr.Append(vBlob{n: 60 + i})
		}
		rootID = arr.SlabID()
	}
	vhAssert(st.FastCommit(1) == nil, "commit")
	// cold: a new storage over the same ledger, or the same storage with the cache dropped
	if vhChoose("cold", 2) == 0 {
		st.DropCache()
	} else {
		st = vhNewPersistentB(base)
	}
	var err error
	if isMap {
		mp, err = NewMapWithRootID(st, rootID, NewDefaultDigesterBuilder())
	} else {
		arr, err = NewArrayWithRootID(st, rootID)
	}
	vhAssert(err == nil, "open cold")
	if err != nil {
		return
	}
	i := vhChoose("idx", n)
	lookup := func() (Value, error) {
		if isMap {
			return mp.Get(vhCompareBK, vhHipB, vBKey{val: uint64(i + 1)})
		}
		return arr.Get(uint64(i))
	}
	base.retrFail = base.nretr + 1 + vhChoose("failat", 2)
	v, err := lookup()
	reached := base.nretr >= base.retrFail
	base.retrFail = 0
	if reached {
		vhAssert(err != nil, "failing ledger read surfaces")
		vhAssert(vhIsExternal(err), "failing ledger read is an external error")
	} else {
		vhAssert(err == nil, "lookup without a failing read succeeds")
	}
	// the ledger answers again: same lookup, same storage
	v, err = lookup()
	vhAssert(err == nil, "lookup succeeds once the ledger answers again")
	if err == nil {
		bl, ok := v.(vBlob)
		vhAssert(ok && bl.n == 60+i, "lookup returns the stored value")
	}
	if isMap {
		vhAssert(VerifyMap(mp, addr, vTypeInfo{id: 42}, vhTic, vhHipB, true) == nil, "map intact after the failed read")
		vhAssert(mp.Count() == n, "count intact")
	} else {
		vhAssert(VerifyArray(arr, addr, vTypeInfo{id: 42}, vhTic, vhHipB, true) == nil, "array intact after the failed read")
		vhAssert(arr.Count() == n, "count intact")
	}
	vhReach("ledger-read-faults-done")
}

// Callback faults during MUTABLE enumeration (its Next steps are keyed lookups
// through the caller's comparator and hash-input provider): the k-th call of
// either component fails -> the enumeration stops with an external error;
// without a failure it yields every key. Maps of single elements over one or
// two leaves and maps with a collision group.
//
//vh:prop C18 C13
//vh:param leaves 2 2
//vh:param perleaf 3 3
func VH_C18_IterationFaults() {
	vhSetThreshold(256)
	storage := &vLogStorage{BasicSlabStorage: vhNewBasicStorage()}
	addr := vhAddr(1)
	b := &vDigesterBuilder{levels: 4}
	var m *OrderedMap
	var model []vhKV
	if vhChoose("withgroup", 2) == 0 {
		m, model = vhBuildMap(storage, addr, b, vhMapShape())
	} else {
		m, model, _ = vhBuildGroupMapDeep(storage, addr, b, vhChoose("nsingle", 2), 2, 0, vhChoose("external", 2) == 1, vhChoose("deep", 2) == 1)
	}
	n := len(model)
	if n == 0 {
		return
	}
	storage.writes = 0
	calls, failAt := 0, 0
	hipCalls, hipFailAt := 0, 0
	cmp := func(s SlabStorage, v Value, st Storable) (bool, error) {
		calls++
		if calls == failAt {
			return false, fmt.Errorf("injected comparator failure")
		}
		return vhCompare(s, v, st)
	}
	hip := func(v Value, buf []byte) ([]byte, error) {
		hipCalls++
		if hipCalls == hipFailAt {
			return nil, fmt.Errorf("injected hip failure")
		}
		return nil, nil
	}
	switch vhChoose("component", 3) {
	case 0:
		failAt = 1 + vhChoose("failat", n)
	case 1:
		hipFailAt = 1 + vhChoose("failat", n)
	}
	count := 0
	var err error
	switch vhChoose("flavour", 3) {
	case 0:
		err = m.Iterate(cmp, hip, func(k, v Value) (bool, error) { count++; return true, nil })
	case 1:
		err = m.IterateKeys(cmp, hip, func(k Value) (bool, error) { count++; return true, nil })
	case 2:
		err = m.IterateValues(cmp, hip, func(v Value) (bool, error) { count++; return true, nil })
	}
	injected := (failAt != 0 && calls >= failAt) || (hipFailAt != 0 && hipCalls >= hipFailAt)
	if injected {
		vhAssert(err != nil, "callback failure during mutable enumeration surfaces")
		vhAssert(vhIsExternal(err), "callback failure during mutable enumeration is an external error")
	} else {
		vhAssert(err == nil, "mutable enumeration without a failing callback succeeds")
		vhAssert(count == n, "mutable enumeration yields every key")
	}
	vhAssert(storage.writes == 0, "enumeration stores/removes nothing")
	vhReach("iteration-faults-done")
}
