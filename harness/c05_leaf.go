//go:build verif

package atree

// C05: split / merge / lend / borrow arithmetic of array data slabs from any
// state satisfying the representation invariant, slab size symbolic.

// vhArrayLeaf builds a non-root ArrayDataSlab with n elements of symbolic size
// (each within the inline limit) and a consistent header.
func vhArrayLeaf(id SlabID, n int, tagBase uint64) *ArrayDataSlab {
	slab := &ArrayDataSlab{header: ArraySlabHeader{slabID: id}}
	size := uint32(arrayDataSlabPrefixSize)
	for i := 0; i < n; i++ {
		s := vhRange32("sz", 1, 32768)
		vhAssume(s <= maxInlineArrayElementSize)
		slab.elements = append(slab.elements, vElem{tag: tagBase + uint64(i), size: s})
		size += s
	}
	slab.header.size = size
	slab.header.count = uint32(n)
	return slab
}

// vhArrayLeafOK asserts the structural facts of a leaf: header matches
// elements; returns the recomputed size.
func vhArrayLeafSize(slab *ArrayDataSlab) uint32 {
	size := uint32(arrayDataSlabPrefixSize)
	for _, e := range slab.elements {
		size += e.ByteSize()
	}
	return size
}

// Split of an overflowing leaf (reachable by one insert/set from a valid one).
//
//vh:prop C05
//vh:param n 8 24
func VH_C05_ArrayLeafSplit() {
	nmax := vhParam("n", 8)
	T := vhRange32("T", 256, 32768)
	vhSetThresholdSym(T)
	n := 2 + vhChoose("n", nmax-1)
	storage := vhNewBasicStorage()
	id, _ := storage.GenerateSlabID(vhAddr(1))
	slab := vhArrayLeaf(id, n, 0)
	slab.next = vhSlabID(1, 99)
	pre := slab.header.size
	vhAssume(pre > maxThreshold)
	vhAssume(pre <= maxThreshold+maxInlineArrayElementSize)
	l, r, err := slab.Split(storage)
	vhAssert(err == nil, "split: no error")
	if err != nil {
		return
	}
	left := l.(*ArrayDataSlab)
	right := r.(*ArrayDataSlab)
	vhAssert(left == slab, "split: left is receiver")
	nl, nr := len(left.elements), len(right.elements)
	vhAssert(nl >= 1, "split: left non-empty")
	vhAssert(nr >= 1, "split: right non-empty")
	vhAssert(nl+nr == n, "split: element count preserved")
	vhAssert(left.header.count == uint32(nl), "split: left count")
	vhAssert(right.header.count == uint32(nr), "split: right count")
	vhAssert(left.header.size == vhArrayLeafSize(left), "split: left size = prefix + sum")
	vhAssert(right.header.size == vhArrayLeafSize(right), "split: right size = prefix + sum")
	vhAssert(left.header.size+right.header.size == pre+arrayDataSlabPrefixSize, "split: total size")
	vhAssert(left.header.size <= maxThreshold, "split: left within max")
	vhAssert(right.header.size <= maxThreshold, "split: right within max")
	vhAssert(left.header.size >= minThreshold, "split: left at least min")
	vhAssert(right.header.size >= minThreshold, "split: right at least min")
	// order preserved
	for i, e := range left.elements {
		vhAssert(e.(vElem).tag == uint64(i), "split: left order")
	}
	for i, e := range right.elements {
		vhAssert(e.(vElem).tag == uint64(nl+i), "split: right order")
	}
	vhAssert(left.next == right.header.slabID, "split: left.next = right")
	vhAssert(right.next == vhSlabID(1, 99), "split: right.next = old next")
	vhAssert(right.header.slabID != left.header.slabID, "split: fresh id")
	vhReach("split-done")
}

func vhCheckLeafPair(left, right *ArrayDataSlab, total int, totalSize uint32, what string) {
	nl, nr := len(left.elements), len(right.elements)
	vhAssert(nl+nr == total, what+": element count preserved")
	vhAssert(left.header.count == uint32(nl) && right.header.count == uint32(nr), what+": header counts")
	vhAssert(left.header.size == vhArrayLeafSize(left), what+": left size = prefix + sum")
	vhAssert(right.header.size == vhArrayLeafSize(right), what+": right size = prefix + sum")
	vhAssert(left.header.size+right.header.size == totalSize, what+": total size preserved")
	vhAssert(left.header.size >= minThreshold && left.header.size <= maxThreshold, what+": left within band")
	vhAssert(right.header.size >= minThreshold && right.header.size <= maxThreshold, what+": right within band")
	for i, e := range left.elements {
		vhAssert(e.(vElem).tag == uint64(i), what+": left order")
	}
	for i, e := range right.elements {
		vhAssert(e.(vElem).tag == uint64(nl+i), what+": right order")
	}
}

// Rebalance / merge of two sibling leaves after one of them underflowed by at
// most one element (what a Remove or a shrinking Set leaves behind), for every
// legal slab size: if the sibling can lend, both end inside the band;
// otherwise the merged leaf does not overflow.
//
//vh:prop C05
//vh:param n 4 8
func VH_C05_ArrayLeafRebalance() {
	nmax := vhParam("n", 4)
	T := vhRange32("T", 256, 32768)
	vhSetThresholdSym(T)
	nl := 1 + vhChoose("nl", nmax)
	nr := 1 + vhChoose("nr", nmax)
	left := vhArrayLeaf(vhSlabID(1, 1), nl, 0)
	right := vhArrayLeaf(vhSlabID(1, 2), nr, uint64(nl))
	left.next = right.header.slabID
	right.next = vhSlabID(1, 99)
	total := nl + nr
	totalSize := left.header.size + right.header.size
	leftUnder := vhChoose("underflow", 2) == 0
	under, other := left, right
	if !leftUnder {
		under, other = right, left
	}
	vhAssume(under.header.size < minThreshold)
	vhAssume(under.header.size+maxInlineArrayElementSize >= minThreshold)
	vhAssume(other.header.size >= minThreshold && other.header.size <= maxThreshold)
	underflowSize, isUnder := under.IsUnderflow()
	vhAssert(isUnder, "IsUnderflow agrees with the band")
	vhAssert(underflowSize == minThreshold-under.header.size, "underflow size")
	var canLend bool
	if leftUnder {
		canLend = right.CanLendToLeft(underflowSize)
	} else {
		canLend = left.CanLendToRight(underflowSize)
	}
	if canLend {
		var err error
		if leftUnder {
			err = left.BorrowFromRight(right)
		} else {
			err = left.LendToRight(right)
		}
		vhAssert(err == nil, "rebalance: no error")
		vhCheckLeafPair(left, right, total, totalSize, "rebalance")
		vhReach("rebalanced")
		return
	}
	err := left.Merge(right)
	vhAssert(err == nil, "merge: no error")
	vhAssert(len(left.elements) == total, "merge: element count")
	vhAssert(left.header.count == uint32(total), "merge: header count")
	vhAssert(left.header.size == vhArrayLeafSize(left), "merge: size = prefix + sum")
	vhAssert(left.header.size <= maxThreshold, "merge: merged leaf does not overflow")
	vhAssert(left.next == vhSlabID(1, 99), "merge: next chain")
	for i, e := range left.elements {
		vhAssert(e.(vElem).tag == uint64(i), "merge: order")
	}
	vhReach("merged")
}
