//go:build verif

package atree

// C11 after a reload (real codec): children decoded from one register may
// share decoder-side tables (type information, digests, keys). One child of a
// parent reopened from the ledger is detached (removed, or overwritten by a
// scalar) and then mutated through the handle taken before: the former
// parent's remaining children keep their content, the parent stays valid and
// commits, a brand-new storage reads the same; the detached child is an
// independently stored value with the mutated content, reloadable by its
// identifier.
//
//vh:prop C11 C08 C10
//vh:init cbor
//vh:sched first
//vh:param children 2 3
func VH_C11_DetachedAfterReload() {
	vhSetThreshold(256)
	nchild := 2 + vhChoose("nchild", vhParam("children", 2)-1)
	kind := vhChoose("kind", 3) // arrays, maps, same-shaped composite maps (compact encoding)
	var childType TypeInfo = vTypeInfo{id: 43}
	if kind == 2 {
		childType = vCompositeTypeInfo{id: 7}
	}
	mapParent := vhChoose("parentkind", 2) == 1
	addr := vhAddr(1)
	base := newVBase()
	st := vhNewPersistentB(base)
	var pa *Array
	var pm *OrderedMap
	if mapParent {
		pm, _ = NewMap(st, addr, NewDefaultDigesterBuilder(), vTypeInfo{id: 42})
	} else {
		pa, _ = NewArray(st, addr, vTypeInfo{id: 42})
	}
	cvals := make([][2]uint64, nchild)
	for c := 0; c < nchild; c++ {
		cvals[c] = [2]uint64{uint64(10 + c), uint64(1000 + c)}
		var child Value
		if kind >= 1 {
			m, _ := NewMap(st, addr, NewDefaultDigesterBuilder(), childType)
			_, _ = m.Set(vhCompareBK, vhHipB, vBKey{val: 100}, vU64(cvals[c][0]))
			_, _ = m.Set(vhCompareBK, vhHipB, vBKey{val: 101}, vU64(cvals[c][1]))
			child = m
		} else {
			a, _ := NewArray(st, addr, vTypeInfo{id: 43})
			_ = a.Append(vU64(cvals[c][0]))
			_ = a.Append(vU64(cvals[c][1]))
			child = a
		}
		if mapParent {
			_, _ = pm.Set(vhCompareBK, vhHipB, vBKey{val: uint64(c + 1)}, child)
		} else {
			_ = pa.Append(child)
		}
	}
	var rootID SlabID
	if mapParent {
		rootID = pm.SlabID()
	} else {
		rootID = pa.SlabID()
	}
	vhAssert(st.FastCommit(1) == nil, "commit")
	open := func() bool {
		st = vhNewPersistentB(base)
		var err error
		if mapParent {
			pm, err = NewMapWithRootID(st, rootID, NewDefaultDigesterBuilder())
		} else {
			pa, err = NewArrayWithRootID(st, rootID)
		}
		vhAssert(err == nil, "reopen parent")
		return err == nil
	}
	if !open() {
		return
	}
	field := func(v Value, k int) (uint64, bool) {
		switch x := v.(type) {
		case *Array:
			if uint64(k) >= x.Count() {
				return 0, false
			}
			e, err := x.Get(uint64(k))
			if err != nil {
				return 0, false
			}
			u, ok := e.(vU64)
			return uint64(u), ok
		case *OrderedMap:
			e, err := x.Get(vhCompareBK, vhHipB, vBKey{val: uint64(100 + k)})
			if err != nil {
				return 0, false
			}
			u, ok := e.(vU64)
			return uint64(u), ok
		}
		return 0, false
	}
	target := vhChoose("target", nchild)
	removed := vhChoose("detach", 2) == 0 // else: overwritten by a scalar
	// handle before detaching
	var h Value
	var err error
	if mapParent {
		h, err = pm.Get(vhCompareBK, vhHipB, vBKey{val: uint64(target + 1)})
	} else {
		h, err = pa.Get(uint64(target))
	}
	vhAssert(err == nil, "handle")
	if err != nil {
		return
	}
	// detach
	if mapParent {
		if removed {
			_, _, err = pm.Remove(vhCompareBK, vhHipB, vBKey{val: uint64(target + 1)})
		} else {
			_, err = pm.Set(vhCompareBK, vhHipB, vBKey{val: uint64(target + 1)}, vU64(5))
		}
	} else {
		if removed {
			_, err = pa.Remove(uint64(target))
		} else {
			_, err = pa.Set(uint64(target), vU64(5))
		}
	}
	vhAssert(err == nil, "detach")
	// (an inlined child has no slab identifier of its own until it is detached)
	var childID SlabID
	switch x := h.(type) {
	case *Array:
		childID = x.SlabID()
	case *OrderedMap:
		childID = x.SlabID()
	}
	// mutate the detached child through the old handle
	op := vhChoose("op", 4)
	want := [2]uint64{cvals[target][0], cvals[target][1]}
	has := [2]bool{true, true}
	switch x := h.(type) {
	case *Array:
		switch op {
		case 0:
			_, err = x.Remove(0)
			want[0], has[1] = want[1], false
		case 1:
			_, err = x.Set(0, vU64(777))
			want[0] = 777
		case 2:
			err = x.Append(vU64(888))
		case 3:
			err = x.PopIterate(func(Storable) {})
			has = [2]bool{false, false}
		}
	case *OrderedMap:
		switch op {
		case 0:
			_, _, err = x.Remove(vhCompareBK, vhHipB, vBKey{val: 100})
			has[0] = false
		case 1:
			_, err = x.Set(vhCompareBK, vhHipB, vBKey{val: 100}, vU64(777))
			want[0] = 777
		case 2:
			_, err = x.Set(vhCompareBK, vhHipB, vBKey{val: 999}, vU64(888))
		case 3:
			err = x.PopIterate(func(Storable, Storable) {})
			has = [2]bool{false, false}
		}
	}
	vhAssert(err == nil, "mutation of the detached child")
	check := func(what string) {
		pos := 0
		for c := 0; c < nchild; c++ {
			if c == target {
				if !removed || mapParent {
					pos++
				}
				if !removed {
					// the scalar that replaced the child
					var v Value
					var err error
					if mapParent {
						v, err = pm.Get(vhCompareBK, vhHipB, vBKey{val: uint64(c + 1)})
					} else {
						v, err = pa.Get(uint64(c))
					}
					u, ok := v.(vU64)
					vhAssert(err == nil && ok && uint64(u) == 5, what+": the replacing value stays in place")
				}
				continue
			}
			var v Value
			var err error
			if mapParent {
				v, err = pm.Get(vhCompareBK, vhHipB, vBKey{val: uint64(c + 1)})
			} else {
				v, err = pa.Get(uint64(pos))
			}
			pos++
			vhAssert(err == nil, what+": remaining child readable")
			if err != nil {
				continue
			}
			for k := 0; k < 2; k++ {
				got, ok := field(v, k)
				vhAssert(ok && got == cvals[c][k], what+": remaining child content unchanged")
			}
		}
		wantCount := uint64(nchild)
		if removed {
			wantCount--
		}
		if mapParent {
			vhAssert(pm.Count() == wantCount, what+": former parent count")
			vhAssert(VerifyMap(pm, addr, vTypeInfo{id: 42}, vhTic, vhHipB, true) == nil, what+": former parent valid")
		} else {
			vhAssert(pa.Count() == wantCount, what+": former parent count")
			vhAssert(VerifyArray(pa, addr, vTypeInfo{id: 42}, vhTic, vhHipB, true) == nil, what+": former parent valid")
		}
	}
	check("after mutating the detached child")
	for k := 0; k < 2; k++ {
		got, ok := field(h, k)
		vhAssert(ok == has[k], "detached child: fields")
		if ok && has[k] {
			vhAssert(got == want[k], "detached child: content")
		}
	}
	vhAssert(st.FastCommit(1) == nil, "commit after detachment")
	if !open() {
		return
	}
	check("reopened")
	// the detached child is an independent stored value
	var d Value
	if kind >= 1 {
		d, err = NewMapWithRootID(st, childID, NewDefaultDigesterBuilder())
	} else {
		d, err = NewArrayWithRootID(st, childID)
	}
	vhAssert(err == nil, "detached child reloads by its identifier")
	if err == nil {
		for k := 0; k < 2; k++ {
			got, ok := field(d, k)
			vhAssert(ok == has[k], "reloaded detached child: fields")
			if ok && has[k] {
				vhAssert(got == want[k], "reloaded detached child: content")
			}
		}
	}
	vhReach("detached-after-reload-done")
}
