//go:build verif

package atree

// C20: CheckStorageHealth accepts exactly the healthy storages, on symbolic
// reference graphs over a small universe of slab doubles.

func vhRefID(addr byte, idx uint64) SlabID {
	return SlabID{address: vhAddr(addr), index: SlabIndex{0, 0, 0, 0, 0, 0, 0, byte(idx)}}
}

// vhForest builds n slab doubles forming a valid forest: slab i (i>=1) is
// either a root or referenced by exactly one earlier slab. Returns parent
// indices (-1 = root).
func vhForest(storage SlabStorage, n int) ([]*vSlab, []int) {
	slabs := make([]*vSlab, n)
	parent := make([]int, n)
	wrapK := vhChoose("wrap", n+1) // reference to slab wrapK (if any) sits inside a non-reference wrapper
	for i := 0; i < n; i++ {
		slabs[i] = &vSlab{id: vhRefID(1, uint64(i+1))}
		parent[i] = -1
		if i > 0 {
			p := vhChoose("parent", i+1) - 1
			parent[i] = p
			if p >= 0 {
				var ref Storable = SlabIDStorable(slabs[i].id)
				if wrapK == i {
					ref = vWrapStorable{inner: ref, extra: 1}
				}
				slabs[p].refs = append(slabs[p].refs, ref)
			}
		}
	}
	return slabs, parent
}

// Valid forests are accepted with the true root set; each single corruption
// of the four kinds named by the property is rejected.
//
//vh:prop C20
//vh:param n 3 5
func VH_C20_HealthForest() {
	n := vhParam("n", 3)
	storage := vhNewBasicStorage()
	slabs, parent := vhForest(storage, n)
	nroots := 0
	for i := 0; i < n; i++ {
		if parent[i] < 0 {
			nroots++
		}
	}
	expSym := vhRange("expected", 0, uint64(n+2))
	expected := int(expSym) - 1 // -1 .. n+1
	corrupt := vhChoose("corruption", 5)
	skip := -1
	switch corrupt {
	case 0: // none
	case 1: // delete a referenced slab
		j := 1 + vhChoose("victim", n-1)
		vhAssume(parent[j] >= 0)
		skip = j
	case 2: // an unreferenced slab beyond the expected root count
		extra := &vSlab{id: vhRefID(1, uint64(n+1))}
		_ = storage.Store(extra.id, extra)
		vhAssume(expected == nroots)
	case 3: // reference one slab from two places
		j := 1 + vhChoose("victim", n-1)
		vhAssume(parent[j] >= 0)
		x := vhChoose("second", n)
		slabs[x].refs = append(slabs[x].refs, SlabIDStorable(slabs[j].id))
	case 4: // reference a slab owned by a different address
		j := 1 + vhChoose("victim", n-1)
		vhAssume(parent[j] >= 0)
		old := slabs[j].id
		slabs[j].id = vhRefID(2, uint64(j+1))
		p := slabs[parent[j]]
		for k, r := range p.refs {
			if unwrapStorable(r) == Storable(SlabIDStorable(old)) {
				if _, isWrapped := r.(vWrapStorable); isWrapped {
					p.refs[k] = vWrapStorable{inner: SlabIDStorable(slabs[j].id), extra: 1}
				} else {
					p.refs[k] = SlabIDStorable(slabs[j].id)
				}
			}
		}
	}
	for i, s := range slabs {
		if i != skip {
			_ = storage.Store(s.id, s)
		}
	}

	roots, err := CheckStorageHealth(storage, expected)

	if corrupt == 0 {
		rootsOK := vhAny(expected < 0, nroots == expected)
		vhAssert(vhImplies(rootsOK, err == nil), "healthy storage accepted")
		vhAssert(vhImplies(!rootsOK, err != nil), "wrong root count rejected")
		if err == nil {
			vhAssert(len(roots) == nroots, "root set size")
			for i := 0; i < n; i++ {
				_, isRoot := roots[slabs[i].id]
				vhAssert(isRoot == (parent[i] < 0), "root set membership")
			}
		}
		vhReach("healthy")
	} else {
		vhAssert(err != nil, "corrupted storage rejected")
		vhReach("corrupted")
	}
}

// The same forests on a PersistentSlabStorage with every slab loaded (each
// slab in the write set or in the read cache by choice): the health check
// behaves identically, SlabIterator yields each live slab exactly once, and
// GetAllChildReferences returns exactly the resolvable descendants and the
// broken references of a slab.
//
//vh:prop C20
//vh:param n 3 4
func VH_C20_PersistentForest() {
	n := vhParam("n", 3)
	base := newVBase()
	st := vhNewPersistent(base)
	slabs, parent := vhForest(st, n)
	victim := -1
	if vhChoose("corrupt", 2) == 1 {
		victim = 1 + vhChoose("victim", n-1)
		vhAssume(parent[victim] >= 0)
	}
	for i, s := range slabs {
		if i == victim {
			// a referenced slab that is missing: never stored, or removed and
			// not yet committed (nil in the write set over a stale cached
			// copy), or a committed removal remembered by the cache as nil
			switch vhChoose("missing", 3) {
			case 1:
				st.cache[s.id] = s
				st.deltas[s.id] = nil
			case 2:
				st.cache[s.id] = nil
			}
			continue
		}
		if vhChoose("place", 2) == 0 {
			st.deltas[s.id] = s
		} else {
			st.cache[s.id] = s
		}
	}
	// iterator: each live slab exactly once
	it, err := st.SlabIterator()
	if victim < 0 {
		vhAssert(err == nil, "iterator over a healthy storage")
	}
	if err == nil {
		seen := map[SlabID]int{}
		for {
			id, slab := it()
			if id == SlabIDUndefined {
				break
			}
			vhAssert(slab != nil, "iterator yields live slabs")
			seen[id]++
		}
		for i, s := range slabs {
			if i == victim {
				continue
			}
			vhAssert(seen[s.id] == 1, "iterator yields each live slab exactly once")
		}
	}
	nroots := 0
	for i := 0; i < n; i++ {
		if parent[i] < 0 {
			nroots++
		}
	}
	_, herr := CheckStorageHealth(st, nroots)
	if victim < 0 {
		vhAssert(herr == nil, "healthy persistent storage accepted")
	} else {
		vhAssert(herr != nil, "persistent storage with a deleted referenced slab rejected")
	}
	// all-child-references query from every live slab
	for i, s := range slabs {
		if i == victim {
			continue
		}
		refs, broken, rerr := st.GetAllChildReferences(s.id)
		vhAssert(rerr == nil, "child references: no error")
		if rerr != nil {
			continue
		}
		// expected: descendants of i; the victim (if a descendant) is broken and its subtree is not followed
		wantRefs, wantBroken := 0, 0
		for j := i + 1; j < n; j++ {
			// is j a descendant of i with no missing slab strictly between?
			k, ok, viaVictim := j, false, false
			for k >= 0 {
				if k == i {
					ok = true
					break
				}
				if k != j && k == victim {
					viaVictim = true
				}
				k = parent[k]
			}
			if !ok || viaVictim {
				continue
			}
			if j == victim {
				wantBroken++
			} else {
				wantRefs++
			}
		}
		vhAssert(len(refs) == wantRefs, "child references: exactly the resolvable descendants")
		vhAssert(len(broken) == wantBroken, "child references: exactly the broken references")
	}
	vhReach("persistent-forest-done")
}
