//go:build verif

package atree

// C20: CheckStorageHealth accepts exactly the healthy storages, on symbolic
// reference graphs over a small universe of slab doubles.

func vhRefID(addr byte, idx uint64) SlabID {
	return SlabID{address: vhAddr(addr), index: SlabIndex{0, 0, 0, 0, 0, 0, 0, byte(idx)}}
}

// vhForest builds n slab doubles forming a valid forest: slab i (i>=1) is
// either a root or referenced by exactly one earlier slab. Returns parent
// indices (-1 = root).
func vhForest(storage SlabStorage, n int) ([]*vSlab, []int) {
	slabs := make([]*vSlab, n)
	parent := make([]int, n)
	wrapK := vhChoose("wrap", n+1) // reference to slab wrapK (if any) sits inside a non-reference wrapper
	for i := 0; i < n; i++ {
		slabs[i] = &vSlab{id: vhRefID(1, uint64(i+1))}
		parent[i] = -1
		if i > 0 {
			p := vhChoose("parent", i+1) - 1
			parent[i] = p
			if p >= 0 {
				var ref Storable = SlabIDStorable(slabs[i].id)
				if wrapK == i {
					ref = vWrapStorable{inner: ref, extra: 1}
				}
				slabs[p].refs = append(slabs[p].refs, ref)
			}
		}
	}
	return slabs, parent
}

// Valid forests are accepted with the true root set; each single corruption
// of the four kinds named by the property is rejected.
//
//vh:prop C20
//vh:param n 3 5
func VH_C20_HealthForest() {
	n := vhParam("n", 3)
	storage := vhNewBasicStorage()
	slabs, parent := vhForest(storage, n)
	nroots := 0
	for i := 0; i < n; i++ {
		if parent[i] < 0 {
			nroots++
		}
	}
	expSym := vhRange("expected", 0, uint64(n+2))
	expected := int(expSym) - 1 // -1 .. n+1
	corrupt := vhChoose("corruption", 5)
	skip := -1
	switch corrupt {
	case 0: // none
	case 1: // delete a referenced slab
		j := 1 + vhChoose("victim", n-1)
		vhAssume(parent[j] >= 0)
		skip = j
	case 2: // an unreferenced slab beyond the expected root count
		extra := &vSlab{id: vhRefID(1, uint64(n+1))}
		_ = storage.Store(extra.id, extra)
		vhAssume(expected == nroots)
	case 3: // reference one slab from two places
		j := 1 + vhChoose("victim", n-1)
		vhAssume(parent[j] >= 0)
		x := vhChoose("second", n)
		slabs[x].refs = append(slabs[x].refs, SlabIDStorable(slabs[j].id))
	case 4: // reference a slab owned by a different address
		j := 1 + vhChoose("victim", n-1)
		vhAssume(parent[j] >= 0)
		old := slabs[j].id
		slabs[j].id = vhRefID(2, uint64(j+1))
		p := slabs[parent[j]]
		for k, r := range p.refs {
			if unwrapStorable(r) == Storable(SlabIDStorable(old)) {
				if _, isWrapped := r.(vWrapStorable); isWrapped {
					p.refs[k] = vWrapStorable{inner: SlabIDStorable(slabs[j].id), extra: 1}
				} else {
					p.refs[k] = SlabIDStorable(slabs[j].id)
				}
			}
		}
	}
	for i, s := range slabs {
		if i != skip {
			_ = storage.Store(s.id, s)
		}
	}

	roots, err := CheckStorageHealth(storage, expected)

	if corrupt == 0 {
		rootsOK := vhAny(expected < 0, nroots == expected)
		vhAssert(vhImplies(rootsOK, err == nil), "healthy storage accepted")
		vhAssert(vhImplies(!rootsOK, err != nil), "wrong root count rejected")
		if err == nil {
			vhAssert(len(roots) == nroots, "root set size")
			for i := 0; i < n; i++ {
				_, isRoot := roots[slabs[i].id]
				vhAssert(isRoot == (parent[i] < 0), "root set membership")
			}
		}
		vhReach("healthy")
	} else {
		vhAssert(err != nil, "corrupted storage rejected")
		vhReach("corrupted")
	}
}

// The same forests on a PersistentSlabStorage with every slab loaded (each
// slab in the write set or in the read cache by choice): the health check
// behaves identically, SlabIterator yields each live slab exactly once, and
// GetAllChildReferences returns exactly the resolvable descendants and the
// broken references of a slab.
//
//vh:prop C20
//vh:param n 3 4
func VH_C20_PersistentForest() {
	n := vhParam("n", 3)
	base := newVBase()
	st := vhNewPersistent(base)
	slabs, parent := vhForest(st, n)
	victim := -1
	if vhChoose("corrupt", 2) == 1 {
		victim = 1 + vhChoose("victim", n-1)
		vhAssume(parent[victim] >= 0)
	}
	for i, s := range slabs {
		if i == victim {
			// a referenced slab that is missing: never stored, or removed and
			// not yet committed (nil in the write set over a stale cached
			// copy), or a committed removal remembered by the cache as nil
			switch vhChoose("missing", 3) {
			case 1:
				st.cache[s.id] = s
				st.deltas[s.id] = nil
			case 2:
				st.cache[s.id] = nil
			}
			continue
		}
		if vhChoose("place", 2) == 0 {
			st.deltas[s.id] = s
		} else {
			st.cache[s.id] = s
		}
	}
	// iterator: each live slab exactly once
	it, err := st.SlabIterator()
	if victim < 0 {
		vhAssert(err == nil, "iterator over a healthy storage")
	}
	if err == nil {
		seen := map[SlabID]int{}
		for {
			id, slab := it()
			if id == SlabIDUndefined {
				break
			}
			vhAssert(slab != nil, "iterator yields live slabs")
			seen[id]++
		}
		for i, s := range slabs {
			if i == victim {
				continue
			}
			vhAssert(seen[s.id] == 1, "iterator yields each live slab exactly once")
		}
	}
	nroots := 0
	for i := 0; i < n; i++ {
		if parent[i] < 0 {
			nroots++
		}
	}
	_, herr := CheckStorageHealth(st, nroots)
	if victim < 0 {
		vhAssert(herr == nil, "healthy persistent storage accepted")
	} else {
		vhAssert(herr != nil, "persistent storage with a deleted referenced slab rejected")
	}
	// all-child-references query from every live slab
	for i, s := range slabs {
		if i == victim {
			continue
		}
		refs, broken, rerr := st.GetAllChildReferences(s.id)
		vhAssert(rerr == nil, "child references: no error")
		if rerr != nil {
			continue
		}
		// expected: descendants of i; the victim (if a descendant) is broken and its subtree is not followed
		wantRefs, wantBroken := 0, 0
		for j := i + 1; j < n; j++ {
			// is j a descendant of i with no missing slab strictly between?
			k, ok, viaVictim := j, false, false
			for k >= 0 {
				if k == i {
					ok = true
					break
				}
				if k != j && k == victim {
					viaVictim = true
				}
				k = parent[k]
			}
			if !ok || viaVictim {
				continue
			}
			if j == victim {
				wantBroken++
			} else {
				wantRefs++
			}
		}
		vhAssert(len(refs) == wantRefs, "child references: exactly the resolvable descendants")
		vhAssert(len(broken) == wantBroken, "child references: exactly the broken references")
	}
	vhReach("persistent-forest-done")
}

// ---- real containers -------------------------------------------------------

// vhDirectRefs: the slab identifiers a REAL slab references, found by walking
// its fields (independent of ChildStorables, which the health check and the
// child-reference query rely on), descending into wrappers, inlined
// containers and collision groups.
func vhDirectRefs(s Slab) []SlabID {
	var out []SlabID
	switch x := s.(type) {
	case *ArrayMetaDataSlab:
		for _, h := range x.childrenHeaders {
			out = append(out, h.slabID)
		}
	case *MapMetaDataSlab:
		for _, h := range x.childrenHeaders {
			out = append(out, h.slabID)
		}
	case *ArrayDataSlab:
		for _, e := range x.elements {
			vhStorableRefsDirect(e, &out)
		}
	case *MapDataSlab:
		vhElementsRefsDirect(x.elements, &out)
	case *StorableSlab:
		vhStorableRefsDirect(x.storable, &out)
	}
	return out
}

func vhStorableRefsDirect(st Storable, out *[]SlabID) {
	st = unwrapStorable(st)
	switch x := st.(type) {
	case SlabIDStorable:
		*out = append(*out, SlabID(x))
	case *ArrayDataSlab:
		for _, e := range x.elements {
			vhStorableRefsDirect(e, out)
		}
	case *MapDataSlab:
		vhElementsRefsDirect(x.elements, out)
	}
}

func vhElementsRefsDirect(es elements, out *[]SlabID) {
	switch x := es.(type) {
	case *hkeyElements:
		for _, el := range x.elems {
			vhElementRefsDirect(el, out)
		}
	case *singleElements:
		for _, el := range x.elems {
			vhElementRefsDirect(el, out)
		}
	}
}

func vhElementRefsDirect(el element, out *[]SlabID) {
	switch x := el.(type) {
	case *singleElement:
		vhStorableRefsDirect(x.key, out)
		vhStorableRefsDirect(x.value, out)
	case *inlineCollisionGroup:
		vhElementsRefsDirect(x.elements, out)
	case *externalCollisionGroup:
		*out = append(*out, x.slabID)
	}
}

// vhChildStorableRefs: what the library's own enumeration (ChildStorables,
// followed the way the health check follows it) yields for a slab.
func vhChildStorableRefs(s Slab) []SlabID {
	var out []SlabID
	cs := s.ChildStorables()
	for len(cs) > 0 {
		var next []Storable
		for _, c := range cs {
			if id, ok := c.(SlabIDStorable); ok {
				out = append(out, SlabID(id))
			}
			next = append(next, c.ChildStorables()...)
		}
		cs = next
	}
	return out
}

func vhSameIDSet(a, b []SlabID) bool {
	if len(a) != len(b) {
		return false
	}
	for _, x := range a {
		n, m := 0, 0
		for _, y := range a {
			if x == y {
				n++
			}
		}
		for _, y := range b {
			if x == y {
				m++
			}
		}
		if n != m {
			return false
		}
	}
	return true
}

// Real containers: a root array or map holding (by choice) a large value
// (reference to a storable slab), a wrapped large value, an inlined child
// array that itself holds a large value, an inlined child map with a large
// value, an external collision group, and enough elements to span several
// slabs. For every slab the library's child enumeration equals an independent
// walk over the slab's fields; the health check accepts the storage with the
// true root; and after deleting ANY referenced slab, adding an unreferenced
// one, duplicating ANY reference, or re-owning ANY referenced slab it fails.
//
//vh:prop C20 C09
//vh:param extra 0 6
func VH_C20_RealContainers() {
	vhSetThreshold(256)
	storage := vhNewBasicStorage()
	addr := vhAddr(1)
	mapRoot := vhChoose("rootkind", 2) == 1
	var rootID SlabID
	b := &vDigesterBuilder{levels: 2}
	var arr *Array
	var mp *OrderedMap
	nkey := uint64(1)
	put := func(v Value) {
		if mapRoot {
			k := vKey{id: nkey, size: 4, d: [4]uint64{nkey * 10, nkey, 0, 0}}
			nkey++
			_, err := mp.Set(vhCompare, vhHip, k, v)
			vhAssert(err == nil, "setup: set")
		} else {
			vhAssert(arr.Append(v) == nil, "setup: append")
		}
	}
	if mapRoot {
		mp, _ = NewMap(storage, addr, b, vTypeInfo{id: 42})
		rootID = mp.SlabID()
	} else {
		arr, _ = NewArray(storage, addr, vTypeInfo{id: 42})
		rootID = arr.SlabID()
	}
	put(vElem{tag: 1, size: 10})
	if vhChoose("big", 2) == 1 {
		put(vElem{tag: 2, size: 200}) // reference to a storable slab
	}
	if vhChoose("wrappedbig", 2) == 1 {
		put(vWrapValue{inner: vElem{tag: 3, size: 200}, extra: 2})
	}
	if vhChoose("childarray", 2) == 1 {
		c, _ := NewArray(storage, addr, vTypeInfo{id: 43})
		_ = c.Append(vElem{tag: 4, size: 200}) // the inlined child holds a reference
		put(c)
	}
	if vhChoose("childmap", 2) == 1 {
		c, _ := NewMap(storage, addr, &vDigesterBuilder{levels: 2}, vTypeInfo{id: 44})
		_, _ = c.Set(vhCompare, vhHip, vKey{id: 900, size: 4, d: [4]uint64{5, 1, 0, 0}}, vElem{tag: 5, size: 200})
		put(c)
	}
	if mapRoot && vhChoose("extgroup", 2) == 1 {
		// three keys colliding on the first level with large values: external collision group
		for j := uint64(0); j < 3; j++ {
			k := vKey{id: 500 + j, size: 4, d: [4]uint64{7777, j + 1, 0, 0}}
			_, err := mp.Set(vhCompare, vhHip, k, vElem{tag: 600 + j, size: 90})
			vhAssert(err == nil, "setup: colliding key")
		}
	}
	for i := 0; i < vhParam("extra", 0); i++ {
		put(vElem{tag: uint64(700 + i), size: 100}) // grow to several slabs (thorough)
	}
	// 1. child enumeration of every slab equals the independent walk
	var all []SlabID
	for id, slab := range storage.Slabs {
		all = append(all, id)
		vhAssert(vhSameIDSet(vhChildStorableRefs(slab), vhDirectRefs(slab)), "child enumeration equals the independent walk over the slab's fields")
	}
	// 2. healthy
	roots, err := CheckStorageHealth(storage, 1)
	vhAssert(err == nil, "healthy storage accepted")
	if err == nil {
		_, ok := roots[rootID]
		vhAssert(len(roots) == 1 && ok, "true root set")
	}
	// referenced slabs (everything but the root), in a deterministic order
	var refd []SlabID
	for _, id := range all {
		if id != rootID {
			refd = append(refd, id)
		}
	}
	for i := 1; i < len(refd); i++ {
		for j := i; j > 0 && refd[j-1].Compare(refd[j]) > 0; j-- {
			refd[j-1], refd[j] = refd[j], refd[j-1]
		}
	}
	switch vhChoose("corruption", 5) {
	case 0:
		vhReach("real-healthy")
		return
	case 1: // delete any referenced slab
		if len(refd) == 0 {
			return
		}
		delete(storage.Slabs, refd[vhChoose("victim", len(refd))])
	case 2: // an unreferenced slab beyond the expected root count
		id, _ := storage.GenerateSlabID(addr)
		storage.Slabs[id] = &StorableSlab{slabID: id, storable: vElem{tag: 9, size: 5}}
	case 3: // reference any referenced slab from a second place (a new root referencing it)
		if len(refd) == 0 {
			return
		}
		id, _ := storage.GenerateSlabID(addr)
		storage.Slabs[id] = &StorableSlab{slabID: id, storable: SlabIDStorable(refd[vhChoose("victim", len(refd))])}
	case 4: // any referenced slab is owned by a different address
		if len(refd) == 0 {
			return
		}
		v := refd[vhChoose("victim", len(refd))]
		slab := storage.Slabs[v]
		other := SlabID{address: vhAddr(2), index: v.index}
		switch x := slab.(type) {
		case *StorableSlab:
			x.slabID = other
		case *ArrayDataSlab:
			x.header.slabID = other
		case *MapDataSlab:
			x.header.slabID = other
		case *ArrayMetaDataSlab:
			x.header.slabID = other
		case *MapMetaDataSlab:
			x.header.slabID = other
		}
	}
	_, err = CheckStorageHealth(storage, 1)
	vhAssert(err != nil, "corrupted storage rejected")
	vhReach("real-corrupted")
}
