//go:build verif

package atree

// C10 "even after the parent has since been restructured": the nested child
// lives in a leaf of a MULTI-SLAB parent (root index slab over 2..3 leaves of
// symbolic element sizes, any valid state). It is put there through the API
// (Set at any position: the parent may split, merge or borrow while taking
// it), then one operation runs through a handle (from insertion or lookup):
// growth by an element of symbolic size (the leaf may overflow and split, or
// the child may stop fitting and become a slab of its own), removal, shrinking
// or growing overwrite, bulk pop, type change. After it: the parent is valid,
// reading through the parent shows the change, the child's value identifier is
// unchanged, every touched slab was handed to Store (so the next commit
// persists it), and storage holds exactly the reachable slabs.
//
//vh:prop C10 C05 C03 C09 C11
//vh:param leaves 2 3
//vh:param perleaf 2 2
//vh:param prefill 1 2
func VH_C10_ChildInMultiSlabParent() {
	vhSetThreshold(256)
	logst := &vLogStorage{BasicSlabStorage: vhNewBasicStorage()}
	storage := logst.BasicSlabStorage
	addr := vhAddr(1)
	nleaves := 2 + vhChoose("leaves", vhParam("leaves", 2)-1)
	perLeaf := vhParam("perleaf", 2)
	counts := make([]int, nleaves)
	for i := range counts {
		counts[i] = perLeaf
	}
	parent, tags := vhBuildArray(logst, addr, counts)
	rootID := parent.SlabID()
	pm := make([]vhItem, len(tags))
	for i, t := range tags {
		pm[i] = vhItem{tag: t}
	}
	// the child: 0..prefill small elements
	child, _ := NewArray(logst, addr, vTypeInfo{id: 42})
	var cm []uint64
	tag := uint64(1)
	npre := vhChoose("prefill", vhParam("prefill", 1)+1)
	for i := 0; i < npre; i++ {
		_ = child.Append(vElem{tag: tag, size: vhRange32("presz", 1, 60)})
		cm = append(cm, tag)
		tag++
	}
	childVID := child.ValueID()
	pos := vhChoose("pos", len(pm))
	old, err := parent.Set(uint64(pos), child)
	vhAssert(err == nil, "setup: child set into the parent")
	if err != nil {
		return
	}
	vhDispose(storage, old)
	pm[pos] = vhItem{child: true}
	vhCheckNested(parent, addr, pm, cm, childVID, "setup")
	h := child
	if vhChoose("handle", 2) == 1 {
		v, err := parent.Get(uint64(pos))
		vhAssert(err == nil, "setup: get child")
		if err != nil {
			return
		}
		h = v.(*Array)
	}
	snap := vhSnapshotAll(logst)
	leavesBefore := 0
	if r, ok := parent.root.(*ArrayMetaDataSlab); ok {
		leavesBefore = len(r.childrenHeaders)
	}
	inlinedBefore := h.Inlined()
	op := vhChoose("op", 7)
	if op == 6 {
		// the child is overwritten by ANOTHER nested container: the old one is handed
		// back as an independent stored value (C11), the new one takes its place
		repl, _ := NewArray(logst, addr, vTypeInfo{id: 42})
		_ = repl.Append(vElem{tag: 900, size: vhRange32("replsz", 1, 300)})
		replVID := repl.ValueID()
		old, err := parent.Set(uint64(pos), repl)
		vhAssert(err == nil, "child overwritten by another container")
		if err != nil {
			return
		}
		id, isRef := old.(SlabIDStorable)
		vhAssert(isRef, "overwritten child is handed back as a reference to a stored value")
		if isRef {
			oa, oerr := NewArrayWithRootID(logst, SlabID(id))
			vhAssert(oerr == nil && oa.Count() == uint64(len(cm)) && oa.ValueID() == childVID, "overwritten child reloads with its content and identity")
		}
		// the old handle no longer reaches the parent
		aerr := h.Append(vElem{tag: 901, size: vhRange32("stalesz", 1, 300)})
		vhAssert(aerr == nil, "detached child stays usable")
		vhCheckDirtyMarks(logst, snap, "overwrite by a container: dirty marks")
		vhCheckNested(parent, addr, pm, []uint64{900}, replVID, "after overwrite by a container")
		vhDispose(storage, old)
		vhAssert(vhStorageSlabCount(storage) == vhArraySlabCount(storage, rootID), "after disposing of the old child: no leaked or dangling slabs")
		vhReach("multislab-nested-replaced")
		return
	}
	switch op {
	case 0:
		err := h.Append(vElem{tag: tag, size: vhRange32("csz", 1, 400)})
		vhAssert(err == nil, "child append")
		cm = append(cm, tag)
	case 1:
		if len(cm) == 0 {
			return
		}
		s, err := h.Remove(0)
		vhAssert(err == nil, "child remove")
		if err == nil {
			vhDispose(storage, s)
		}
		cm = cm[1:]
	case 2:
		if len(cm) == 0 {
			return
		}
		s, err := h.Set(0, vElem{tag: tag, size: vhRange32("csz", 1, 400)})
		vhAssert(err == nil, "child set")
		if err == nil {
			vhDispose(storage, s)
		}
		cm[0] = tag
	case 3:
		err := h.PopIterate(func(s Storable) { vhDispose(storage, s) })
		vhAssert(err == nil, "child pop")
		cm = nil
	case 4:
		err := h.Insert(0, vElem{tag: tag, size: vhRange32("csz", 1, 400)})
		vhAssert(err == nil, "child insert")
		cm = append([]uint64{tag}, cm...)
	case 5:
		// two growths in a row: inline -> standalone with the parent leaf reacting twice
		err := h.Append(vElem{tag: tag, size: vhRange32("csz", 1, 200)})
		vhAssert(err == nil, "child append (1)")
		cm = append(cm, tag)
		tag++
		err = h.Append(vElem{tag: tag, size: vhRange32("csz", 1, 200)})
		vhAssert(err == nil, "child append (2)")
		cm = append(cm, tag)
	}
	vhAssert(parent.SlabID() == rootID, "parent root id stable")
	if r, ok := parent.root.(*ArrayMetaDataSlab); ok {
		if len(r.childrenHeaders) > leavesBefore {
			vhReach("witness: the child's growth split the parent's leaf")
		}
		if len(r.childrenHeaders) < leavesBefore {
			vhReach("witness: the child's shrinking merged the parent's leaves")
		}
	} else if leavesBefore > 0 {
		vhReach("witness: the parent collapsed to one slab")
	}
	if inlinedBefore && !h.Inlined() {
		vhReach("witness: the child stopped fitting and became a slab of its own")
	}
	if !inlinedBefore && h.Inlined() {
		vhReach("witness: the child fits again and was inlined")
	}
	vhCheckDirtyMarks(logst, snap, "nested op in a multi-slab parent: dirty marks")
	vhCheckNested(parent, addr, pm, cm, childVID, "after op")
	vhAssert(h.ValueID() == childVID, "child value id stable through the handle")
	// reopened parent shows the same
	p2, err := NewArrayWithRootID(logst, rootID)
	vhAssert(err == nil, "reopen parent")
	if err == nil {
		vhCheckNested(p2, addr, pm, cm, childVID, "reopened")
	}
	vhAssert(vhStorageSlabCount(storage) == vhArraySlabCount(storage, rootID), "no leaked or dangling slabs")
	vhReach("multislab-nested-done")
}

// The same with a MAP parent spanning several slabs (root index slab over 2..3
// leaves, digests and key/value sizes symbolic): the child array replaces the
// value of any existing key through the API, then one operation runs through
// the handle from insertion or lookup.
//
//vh:prop C10 C05 C03 C09
//vh:param leaves 2 3
//vh:param perleaf 2 2
//vh:param prefill 1 2
func VH_C10_ChildInMultiSlabMap() {
	vhSetThreshold(256)
	logst := &vLogStorage{BasicSlabStorage: vhNewBasicStorage()}
	storage := logst.BasicSlabStorage
	addr := vhAddr(1)
	b := &vDigesterBuilder{levels: 4}
	nleaves := 2 + vhChoose("leaves", vhParam("leaves", 2)-1)
	perLeaf := vhParam("perleaf", 2)
	counts := make([]int, nleaves)
	for i := range counts {
		counts[i] = perLeaf
	}
	parent, model := vhBuildMap(logst, addr, b, counts)
	rootID := parent.SlabID()
	child, _ := NewArray(logst, addr, vTypeInfo{id: 42})
	var cm []uint64
	tag := uint64(1)
	npre := vhChoose("prefill", vhParam("prefill", 1)+1)
	for i := 0; i < npre; i++ {
		_ = child.Append(vElem{tag: tag, size: vhRange32("presz", 1, 60)})
		cm = append(cm, tag)
		tag++
	}
	childVID := child.ValueID()
	pos := vhChoose("pos", len(model))
	key := model[pos].key
	old, err := parent.Set(vhCompare, vhHip, key, child)
	vhAssert(err == nil, "setup: child set into the parent map")
	if err != nil {
		return
	}
	vhDispose(storage, old)
	model[pos].val = 0 // (a container has no tag)
	checkChild := func(p *OrderedMap, what string) {
		v, err := p.Get(vhCompare, vhHip, key)
		vhAssert(err == nil, what+": child readable through the parent")
		if err != nil {
			return
		}
		c, ok := v.(*Array)
		vhAssert(ok, what+": child is an array")
		if !ok {
			return
		}
		vhAssert(c.ValueID() == childVID, what+": child value id stable")
		vhAssert(c.Count() == uint64(len(cm)), what+": child count through the parent")
		if c.Count() != uint64(len(cm)) {
			return
		}
		for j, want := range cm {
			e, err := c.Get(uint64(j))
			vhAssert(err == nil && vhTagOf(e) == want, what+": child content through the parent")
		}
	}
	vhCheckMap(parent, addr, model, "setup")
	checkChild(parent, "setup")
	h := child
	if vhChoose("handle", 2) == 1 {
		v, err := parent.Get(vhCompare, vhHip, key)
		vhAssert(err == nil, "setup: get child")
		if err != nil {
			return
		}
		h = v.(*Array)
	}
	snap := vhSnapshotAll(logst)
	leavesBefore := 0
	if r, ok := parent.root.(*MapMetaDataSlab); ok {
		leavesBefore = len(r.childrenHeaders)
	}
	inlinedBefore := h.Inlined()
	switch vhChoose("op", 5) {
	case 0:
		err := h.Append(vElem{tag: tag, size: vhRange32("csz", 1, 400)})
		vhAssert(err == nil, "child append")
		cm = append(cm, tag)
	case 1:
		if len(cm) == 0 {
			return
		}
		s, err := h.Remove(0)
		vhAssert(err == nil, "child remove")
		if err == nil {
			vhDispose(storage, s)
		}
		cm = cm[1:]
	case 2:
		if len(cm) == 0 {
			return
		}
		s, err := h.Set(0, vElem{tag: tag, size: vhRange32("csz", 1, 400)})
		vhAssert(err == nil, "child set")
		if err == nil {
			vhDispose(storage, s)
		}
		cm[0] = tag
	case 3:
		err := h.PopIterate(func(s Storable) { vhDispose(storage, s) })
		vhAssert(err == nil, "child pop")
		cm = nil
	case 4:
		err := h.Append(vElem{tag: tag, size: vhRange32("csz", 1, 200)})
		vhAssert(err == nil, "child append (1)")
		cm = append(cm, tag)
		tag++
		err = h.Append(vElem{tag: tag, size: vhRange32("csz", 1, 200)})
		vhAssert(err == nil, "child append (2)")
		cm = append(cm, tag)
	}
	vhAssert(parent.SlabID() == rootID, "parent root id stable")
	if r, ok := parent.root.(*MapMetaDataSlab); ok {
		if len(r.childrenHeaders) > leavesBefore {
			vhReach("witness: the child's growth split the parent's leaf")
		}
		if len(r.childrenHeaders) < leavesBefore {
			vhReach("witness: the child's shrinking merged the parent's leaves")
		}
	} else if leavesBefore > 0 {
		vhReach("witness: the parent collapsed to one slab")
	}
	if inlinedBefore && !h.Inlined() {
		vhReach("witness: the child stopped fitting and became a slab of its own")
	}
	if !inlinedBefore && h.Inlined() {
		vhReach("witness: the child fits again and was inlined")
	}
	vhCheckDirtyMarks(logst, snap, "nested op in a multi-slab map parent: dirty marks")
	vhCheckMap(parent, addr, model, "after op")
	checkChild(parent, "after op")
	vhAssert(h.ValueID() == childVID, "child value id stable through the handle")
	p2, err := NewMapWithRootID(logst, rootID, b)
	vhAssert(err == nil, "reopen parent")
	if err == nil {
		vhCheckMap(p2, addr, model, "reopened")
		checkChild(p2, "reopened")
	}
	vhAssert(vhStorageSlabCount(storage) == vhMapSlabCount(storage, rootID), "no leaked or dangling slabs")
	vhReach("multislab-map-nested-done")
}
