//go:build verif

package atree

// C05: index-slab (array) split / rebalance / merge kernels with the slab
// size symbolic: child header sizes are fixed (16 bytes each), so the sizes
// are decided by the number of children; element counts of the children are
// symbolic, and the cumulative count index must be rebuilt exactly.

func vhArrayIndexSlab(id SlabID, nchildren int, idxBase byte) *ArrayMetaDataSlab {
	m := &ArrayMetaDataSlab{header: ArraySlabHeader{slabID: id, size: arrayMetaDataSlabPrefixSize + arraySlabHeaderSize*uint32(nchildren)}}
	total := uint32(0)
	for i := 0; i < nchildren; i++ {
		c := vhRange32("cnt", 1, 100000)
		total += c
		m.childrenHeaders = append(m.childrenHeaders, ArraySlabHeader{slabID: vhSlabID(2, idxBase+byte(i)), size: vhRange32("csize", 1, 49152), count: c})
		m.childrenCountSum = append(m.childrenCountSum, total)
	}
	m.header.count = total
	return m
}

func vhCheckArrayIndexSlab(m *ArrayMetaDataSlab, firstChild byte, n int, what string) {
	vhAssert(len(m.childrenHeaders) == n && len(m.childrenCountSum) == n, what+": child count")
	vhAssert(m.header.size == arrayMetaDataSlabPrefixSize+arraySlabHeaderSize*uint32(n), what+": size = prefix + 16 per child")
	sum := uint32(0)
	for i, h := range m.childrenHeaders {
		vhAssert(h.slabID == vhSlabID(2, firstChild+byte(i)), what+": child order")
		sum += h.count
		vhAssert(m.childrenCountSum[i] == sum, what+": cumulative counts agree with the children")
	}
	vhAssert(m.header.count == sum, what+": total count")
}

//vh:prop C05
//vh:param k 12 24
func VH_C05_ArrayIndexKernels() {
	K := vhParam("k", 12)
	T := vhRange32("T", 256, 32768)
	vhSetThresholdSym(T)
	storage := vhNewBasicStorage()
	switch vhChoose("kernel", 2) {
	case 0: // split of an index slab that just overflowed by one child header
		n := 2 + vhChoose("n", K+16)
		id, _ := storage.GenerateSlabID(vhAddr(1))
		m := vhArrayIndexSlab(id, n, 1)
		vhAssume(m.header.size > maxThreshold)
		vhAssume(m.header.size-arraySlabHeaderSize <= maxThreshold)
		vhAssert(m.IsFull(), "IsFull agrees with the band")
		l, r, err := m.Split(storage)
		vhAssert(err == nil, "index split: no error")
		if err != nil {
			return
		}
		left, right := l.(*ArrayMetaDataSlab), r.(*ArrayMetaDataSlab)
		nl, nr := len(left.childrenHeaders), len(right.childrenHeaders)
		vhAssert(nl+nr == n && nl >= 1 && nr >= 1, "index split: children preserved")
		vhCheckArrayIndexSlab(left, 1, nl, "index split left")
		vhCheckArrayIndexSlab(right, 1+byte(nl), nr, "index split right")
		vhAssert(left.header.size >= minThreshold && left.header.size <= maxThreshold, "index split: left within band")
		vhAssert(right.header.size >= minThreshold && right.header.size <= maxThreshold, "index split: right within band")
		vhReach("index-split")
	case 1: // rebalance or merge after one sibling lost a child header
		nl := 1 + vhChoose("nl", K)
		nr := 1 + vhChoose("nr", K)
		left := vhArrayIndexSlab(vhSlabID(1, 1), nl, 1)
		right := vhArrayIndexSlab(vhSlabID(1, 2), nr, 1+byte(nl))
		total := nl + nr
		leftUnder := vhChoose("underflow", 2) == 0
		under, other := left, right
		if !leftUnder {
			under, other = right, left
		}
		vhAssume(under.header.size < minThreshold)
		vhAssume(under.header.size+arraySlabHeaderSize >= minThreshold)
		vhAssume(other.header.size >= minThreshold && other.header.size <= maxThreshold)
		underflowSize, isUnder := under.IsUnderflow()
		vhAssert(isUnder, "IsUnderflow agrees with the band")
		var canLend bool
		if leftUnder {
			canLend = right.CanLendToLeft(underflowSize)
		} else {
			canLend = left.CanLendToRight(underflowSize)
		}
		if canLend {
			var err error
			if leftUnder {
				err = left.BorrowFromRight(right)
			} else {
				err = left.LendToRight(right)
			}
			vhAssert(err == nil, "index rebalance: no error")
			cl, cr := len(left.childrenHeaders), len(right.childrenHeaders)
			vhAssert(cl+cr == total, "index rebalance: children preserved")
			vhCheckArrayIndexSlab(left, 1, cl, "index rebalance left")
			vhCheckArrayIndexSlab(right, 1+byte(cl), cr, "index rebalance right")
			vhAssert(left.header.size >= minThreshold && left.header.size <= maxThreshold, "index rebalance: left within band")
			vhAssert(right.header.size >= minThreshold && right.header.size <= maxThreshold, "index rebalance: right within band")
			vhReach("index-rebalanced")
			return
		}
		err := left.Merge(right)
		vhAssert(err == nil, "index merge: no error")
		vhCheckArrayIndexSlab(left, 1, total, "index merged")
		vhAssert(left.header.size <= maxThreshold, "index merge: merged slab does not overflow")
		vhReach("index-merged")
	}
}

// Lemmas behind the float summaries the engine applies (exact IEEE-754
// rendering, //vh:fpexact): the index slabs' "how many headers cover this many
// bytes" computation equals integer ceiling division for every size that can
// occur (sizes are below 1.5 * 32768), and the split midpoint equals (c+1)/2.
//
//vh:prop C05
//vh:fpexact
//vh:mode bv
//vh:param lemmabits 11 16
func VH_L_CeilDiv() {
	x := vhU32("x")
	vhAssume(x < uint32(1)<<uint(vhParam("lemmabits", 11)))
	switch vhChoose("k", 3) {
	case 0:
		vhAssert(uint32(mathCeil(float64(x)/arraySlabHeaderSize)) == (x+arraySlabHeaderSize-1)/arraySlabHeaderSize, "ceil(x/14) == (x+13)/14")
	case 1:
		vhAssert(uint32(mathCeil(float64(x)/mapSlabHeaderSize)) == (x+mapSlabHeaderSize-1)/mapSlabHeaderSize, "ceil(x/18) == (x+17)/18")
	case 2:
		vhAssert(uint32(mathCeil(float64(x)/2)) == (x+1)/2, "ceil(x/2) == (x+1)/2")
	}
	vhReach("lemma-done")
}

func vhMapIndexSlab(id SlabID, nchildren int, idxBase byte, prev *uint64, first *bool) *MapMetaDataSlab {
	m := &MapMetaDataSlab{header: MapSlabHeader{slabID: id, size: mapMetaDataSlabPrefixSize + mapSlabHeaderSize*uint32(nchildren)}}
	for i := 0; i < nchildren; i++ {
		d := vhU64("fk")
		if !*first {
			vhAssume(d > *prev)
		}
		*first = false
		*prev = d
		m.childrenHeaders = append(m.childrenHeaders, MapSlabHeader{slabID: vhSlabID(2, idxBase+byte(i)), size: vhRange32("csize", 1, 49152), firstKey: Digest(d)})
	}
	m.header.firstKey = m.childrenHeaders[0].firstKey
	return m
}

func vhCheckMapIndexSlab(m *MapMetaDataSlab, firstChild byte, n int, what string) {
	vhAssert(len(m.childrenHeaders) == n, what+": child count")
	vhAssert(m.header.size == mapMetaDataSlabPrefixSize+mapSlabHeaderSize*uint32(n), what+": size = prefix + 18 per child")
	for i, h := range m.childrenHeaders {
		vhAssert(h.slabID == vhSlabID(2, firstChild+byte(i)), what+": child order")
		if i > 0 {
			vhAssert(m.childrenHeaders[i-1].firstKey < h.firstKey, what+": first keys strictly ascending")
		}
	}
	if n > 0 {
		vhAssert(m.header.firstKey == m.childrenHeaders[0].firstKey, what+": first key = first child's first key")
	}
}

//vh:prop C05
//vh:param k 10 20
func VH_C05_MapIndexKernels() {
	K := vhParam("k", 10)
	T := vhRange32("T", 256, 32768)
	vhSetThresholdSym(T)
	storage := vhNewBasicStorage()
	var prev uint64
	first := true
	switch vhChoose("kernel", 2) {
	case 0:
		n := 2 + vhChoose("n", K+14)
		id, _ := storage.GenerateSlabID(vhAddr(1))
		m := vhMapIndexSlab(id, n, 1, &prev, &first)
		vhAssume(m.header.size > maxThreshold)
		vhAssume(m.header.size-mapSlabHeaderSize <= maxThreshold)
		vhAssert(m.IsFull(), "IsFull agrees with the band")
		l, r, err := m.Split(storage)
		vhAssert(err == nil, "map index split: no error")
		if err != nil {
			return
		}
		left, right := l.(*MapMetaDataSlab), r.(*MapMetaDataSlab)
		nl, nr := len(left.childrenHeaders), len(right.childrenHeaders)
		vhAssert(nl+nr == n && nl >= 1 && nr >= 1, "map index split: children preserved")
		vhCheckMapIndexSlab(left, 1, nl, "map index split left")
		vhCheckMapIndexSlab(right, 1+byte(nl), nr, "map index split right")
		vhAssert(left.header.size >= minThreshold && left.header.size <= maxThreshold, "map index split: left within band")
		vhAssert(right.header.size >= minThreshold && right.header.size <= maxThreshold, "map index split: right within band")
		vhReach("map-index-split")
	case 1:
		nl := 1 + vhChoose("nl", K)
		nr := 1 + vhChoose("nr", K)
		left := vhMapIndexSlab(vhSlabID(1, 1), nl, 1, &prev, &first)
		right := vhMapIndexSlab(vhSlabID(1, 2), nr, 1+byte(nl), &prev, &first)
		total := nl + nr
		leftUnder := vhChoose("underflow", 2) == 0
		under, other := left, right
		if !leftUnder {
			under, other = right, left
		}
		vhAssume(under.header.size < minThreshold)
		vhAssume(under.header.size+mapSlabHeaderSize >= minThreshold)
		vhAssume(other.header.size >= minThreshold && other.header.size <= maxThreshold)
		underflowSize, isUnder := under.IsUnderflow()
		vhAssert(isUnder, "IsUnderflow agrees with the band")
		var canLend bool
		if leftUnder {
			canLend = right.CanLendToLeft(underflowSize)
		} else {
			canLend = left.CanLendToRight(underflowSize)
		}
		if canLend {
			var err error
			if leftUnder {
				err = left.BorrowFromRight(right)
			} else {
				err = left.LendToRight(right)
			}
			vhAssert(err == nil, "map index rebalance: no error")
			cl, cr := len(left.childrenHeaders), len(right.childrenHeaders)
			vhAssert(cl+cr == total, "map index rebalance: children preserved")
			vhCheckMapIndexSlab(left, 1, cl, "map index rebalance left")
			vhCheckMapIndexSlab(right, 1+byte(cl), cr, "map index rebalance right")
			vhAssert(left.header.size >= minThreshold && left.header.size <= maxThreshold, "map index rebalance: left within band")
			vhAssert(right.header.size >= minThreshold && right.header.size <= maxThreshold, "map index rebalance: right within band")
			vhReach("map-index-rebalanced")
			return
		}
		err := left.Merge(right)
		vhAssert(err == nil, "map index merge: no error")
		vhCheckMapIndexSlab(left, 1, total, "map index merged")
		vhAssert(left.header.size <= maxThreshold, "map index merge: merged slab does not overflow")
		vhReach("map-index-merged")
	}
}

// The slab-size band and the per-element inline limits that the REAL
// setThreshold derives, for every legal slab size T (symbolic; exact IEEE-754
// rendering of its float computation): the band is [T/2, 1.5T]; two elements
// of the largest inline size fit into a slab of size T next to the slab's
// fixed overhead (arrays; maps incl. the per-element digest), so a slab that
// exceeds the band holds at least two elements and can be split; a key of the
// largest inline size leaves room for a value of the same size; two
// underflowing slabs merge within the band. The same run discharges, with exact
// floating-point semantics, the integer summary the engine applies to
// float64(T)*1.5 in all other harnesses (they call the real setThreshold too).
//
//vh:prop C05
//vh:fpexact
//vh:mode bv
func VH_C05_Thresholds() {
	T := vhU32("T")
	vhAssume(T >= minSlabSize)
	vhAssume(T <= maxSlabSize)
	setThreshold(T)
	realMin, realMax := minThreshold, maxThreshold
	realArr, realMapEl, realKey := maxInlineArrayElementSize, maxInlineMapElementSize, maxInlineMapKeySize
	// property-level facts
	vhAssert(realMin*2 <= T && T <= realMin*2+1, "lower bound of the band is half the slab size")
	vhAssert(realMax*2 <= T*3 && T*3 <= realMax*2+1, "upper bound of the band is 1.5x the slab size")
	vhAssert(realArr >= 1, "array inline limit admits some element")
	vhAssert(arrayDataSlabPrefixSize+2*realArr <= T, "two array elements of the largest inline size fit a slab of size T")
	vhAssert(realMapEl >= 1+singleElementPrefixSize+1, "map inline limit admits some key and value")
	vhAssert(mapDataSlabPrefixSize+hkeyElementsPrefixSize+2*(digestSize+realMapEl) <= T, "two map elements of the largest inline size fit a slab of size T")
	vhAssert(realKey >= 1, "map key inline limit admits some key")
	vhAssert(singleElementPrefixSize+2*realKey <= realMapEl, "a key of the largest inline size leaves room for a value of the same size")
	vhAssert(2*(realMin-1) <= realMax, "two underflowing slabs merge within the band")
	// the limits callers see are the limits the library enforces
	vhAssert(MaxInlineArrayElementSize() == realArr, "exported array element limit is the enforced one")
	vhAssert(MaxInlineMapElementSize() == realMapEl, "exported map element limit is the enforced one")
	vhAssert(MaxInlineMapKeySize() == realKey, "exported map key limit is the enforced one")
	// the summary the engine applies to the float computation elsewhere (lemma L-mul1.5)
	vhAssert(uint32(float64(T)*1.5) == T+T/2, "uint32(float64(T)*1.5) == T + T/2 for every legal T")
	vhReach("thresholds-done")
}

// Positional routing inside an index slab (the function every Get / Set /
// Insert / Remove descends through): for a slab with 2..40 children (both the
// linear scan used for few children and the binary search used from 32
// children on), symbolic child counts and ANY index, the returned child is the
// one whose cumulative range contains the index, the returned header slot is
// that child's, and the adjusted index is the position inside it; an index at
// or beyond the total is rejected. Map index slabs route by first digest in the
// same way (symbolic ascending digests, any looked-up digest).
//
//vh:prop C05 C01 C02
//vh:param maxchildren 34 40
func VH_C05_IndexRouting() {
	vhSetThreshold(1024)
	maxc := vhParam("maxchildren", 34)
	sizes := []int{2, 3, 31, 32, 33, maxc}
	n := sizes[vhChoose("nchildren", len(sizes))]
	if vhChoose("kind", 2) == 0 {
		m := &ArrayMetaDataSlab{header: ArraySlabHeader{slabID: vhSlabID(1, 1)}}
		total := uint32(0)
		for i := 0; i < n; i++ {
			c := vhRange32("cnt", 1, 1000)
			total += c
			m.childrenHeaders = append(m.childrenHeaders, ArraySlabHeader{slabID: vhSlabID(2, byte(i+1)), size: 200, count: c})
			m.childrenCountSum = append(m.childrenCountSum, total)
		}
		m.header.count = total
		idx := vhRange("index", 0, 100000)
		slot, adj, id, err := m.childSlabIndexInfo(idx)
		if idx >= uint64(total) {
			vhAssert(err != nil, "index beyond the total is rejected")
			vhReach("routing-done")
			return
		}
		vhAssert(err == nil, "in-range index is routed")
		if err != nil {
			return
		}
		vhAssert(slot >= 0 && slot < n, "slot in range")
		if slot < 0 || slot >= n {
			return
		}
		lo := uint64(0)
		if slot > 0 {
			lo = uint64(m.childrenCountSum[slot-1])
		}
		hi := uint64(m.childrenCountSum[slot])
		vhAssert(lo <= idx && idx < hi, "the child's cumulative range contains the index")
		vhAssert(adj == idx-lo, "adjusted index is the position inside the child")
		vhAssert(id == m.childrenHeaders[slot].slabID, "returned identifier is that child's")
	} else {
		m := &MapMetaDataSlab{header: MapSlabHeader{slabID: vhSlabID(1, 1)}}
		for i := 0; i < n; i++ {
			// ascending first digests in disjoint windows
			fk := vhRange("fk", uint64(i)*1000+1, uint64(i)*1000+999)
			m.childrenHeaders = append(m.childrenHeaders, MapSlabHeader{slabID: vhSlabID(2, byte(i+1)), size: 200, firstKey: Digest(fk)})
		}
		m.header.firstKey = m.childrenHeaders[0].firstKey
		d := vhRange("digest", 0, uint64(n)*1000+500)
		// the child that must be searched: the last one whose first digest is <= d (the first child for smaller digests)
		want := 0
		for i := 1; i < n; i++ {
			if uint64(m.childrenHeaders[i].firstKey) <= d {
				want = i
			}
		}
		storage := vhNewBasicStorage()
		for _, h := range m.childrenHeaders {
			_ = storage.Store(h.slabID, &MapDataSlab{header: h, elements: newHkeyElements(0)})
		}
		_, got, err := m.getChildSlabByDigest(storage, Digest(d), vKey{id: 1})
		if d < uint64(m.childrenHeaders[0].firstKey) {
			vhAssert(vhIsKeyNotFound(err), "a digest below every child is not found")
		} else {
			vhAssert(err == nil, "digest routed")
			vhAssert(got == want, "lookup descends into the last child whose first digest is not above the digest")
		}
	}
	vhReach("routing-done")
}
