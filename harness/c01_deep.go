//go:build verif

package atree

// C01/C05 on three-level trees: root index slab -> index slabs -> leaves.
// The two-level step harness never runs the recursion through a NON-ROOT index
// slab (split of an index child, merge/borrow between index siblings, root
// collapse onto an index child). Here the pre-state is any valid three-level
// tree with the stated fan-outs (slab size 256, where an index slab holds
// 9..26 children), element sizes symbolic, and one operation runs at a position
// next to an index-slab boundary.

// vhBuildArrayDeep builds root -> len(kids) index slabs -> kids[i] leaves of
// perLeaf elements each. Everything is stored; sizes are assumed in band.
// Only the leaves within one position of the target leaf (global leaf index
// focus) get symbolic element sizes; the others hold elements of 40 bytes:
// they take part in the operation only through their headers.
func vhBuildArrayDeep(storage SlabStorage, addr Address, kids []int, perLeaf int, focus int) (*Array, []uint64) {
	leafNo := 0
	rootID, _ := storage.GenerateSlabID(addr)
	extra := &ArrayExtraData{TypeInfo: vTypeInfo{id: 42}}
	var tags []uint64
	tag := uint64(100)
	root := &ArrayMetaDataSlab{
		header:    ArraySlabHeader{slabID: rootID, size: arrayMetaDataSlabPrefixSize + arraySlabHeaderSize*uint32(len(kids))},
		extraData: extra,
	}
	var prevLeaf *ArrayDataSlab
	var all []Slab
	total := uint32(0)
	for _, k := range kids {
		mid, _ := storage.GenerateSlabID(addr)
		meta := &ArrayMetaDataSlab{
			header: ArraySlabHeader{slabID: mid, size: arrayMetaDataSlabPrefixSize + arraySlabHeaderSize*uint32(k)},
		}
		vhAssume(meta.header.size >= minThreshold)
		vhAssume(meta.header.size <= maxThreshold)
		sub := uint32(0)
		for j := 0; j < k; j++ {
			id, _ := storage.GenerateSlabID(addr)
			var es []Storable
			sum := uint32(0)
			for e := 0; e < perLeaf; e++ {
				s := uint32(40)
				if leafNo >= focus-1 && leafNo <= focus+1 {
					s = vhRange32("sz", 1, 32768)
					vhAssume(s <= maxInlineArrayElementSize)
				}
				es = append(es, vElem{tag: tag, size: s})
				tags = append(tags, tag)
				tag++
				sum += s
			}
			leaf := &ArrayDataSlab{
				header:   ArraySlabHeader{slabID: id, size: arrayDataSlabPrefixSize + sum, count: uint32(perLeaf)},
				elements: es,
			}
			vhAssume(leaf.header.size >= minThreshold)
			vhAssume(leaf.header.size <= maxThreshold)
			if prevLeaf != nil {
				prevLeaf.next = id
			}
			prevLeaf = leaf
			leafNo++
			all = append(all, leaf)
			sub += uint32(perLeaf)
			meta.childrenHeaders = append(meta.childrenHeaders, leaf.header)
			meta.childrenCountSum = append(meta.childrenCountSum, sub)
		}
		meta.header.count = sub
		all = append(all, meta)
		total += sub
		root.childrenHeaders = append(root.childrenHeaders, meta.header)
		root.childrenCountSum = append(root.childrenCountSum, total)
	}
	root.header.count = total
	for _, s := range all {
		_ = storage.Store(s.SlabID(), s)
	}
	_ = storage.Store(rootID, root)
	return &Array{Storage: storage, root: root}, tags
}

// vhDeepShape picks the fan-outs of the index slabs under the root.
func vhDeepShape() []int {
	shapes := [][]int{
		{9, 9},   // both minimal: a leaf merge underflows an index slab which must merge; root collapses
		{9, 10},  // left underflows, right can lend
		{10, 9},  // right underflows, left can lend
		{26, 9},  // left is full: a leaf split overflows it (split or lend to the right)
		{9, 26},  // right is full
		{26, 26}, // both full: index slab split, root gets a third child
		{9, 9, 9},
		{9, 26, 9},
	}
	n := vhParam("shapes", 3)
	return shapes[vhChoose("shape", n)]
}

//vh:prop C01 C05
//vh:propthorough C09 C03
//vh:param shapes 4 8
//vh:param perleaf 3 3
func VH_C01_DeepArrayStep() {
	vhSetThreshold(256)
	logst := &vLogStorage{BasicSlabStorage: vhNewBasicStorage()}
	storage := logst.BasicSlabStorage
	addr := vhAddr(1)
	kids := vhDeepShape()
	perLeaf := vhParam("perleaf", 3)
	// target: a leaf next to an index-slab boundary, any element in it
	mi := vhChoose("meta", len(kids))
	k := kids[mi]
	var lp int
	switch vhChoose("leafpos", 4) {
	case 0:
		lp = 0
	case 1:
		lp = 1
	case 2:
		lp = k - 2
	case 3:
		lp = k - 1
	}
	base := 0
	for i := 0; i < mi; i++ {
		base += kids[i] * perLeaf
	}
	base += lp * perLeaf
	a, model := vhBuildArrayDeep(logst, addr, kids, perLeaf, base/perLeaf)
	rootID := a.SlabID()
	snap := vhSnapshotAll(logst)
	n := len(model)
	e := vhChoose("elem", perLeaf)
	idx := base + e

	newTag := uint64(7)
	newSz := vhRange32("newsz", 1, 65536)
	newElem := vElem{tag: newTag, size: newSz}
	switch vhChoose("op", 4) {
	case 0:
		v, err := a.Get(uint64(idx))
		vhAssert(err == nil, "get: in range never fails")
		if err == nil {
			vhAssert(vhTagOf(v) == model[idx], "get: value")
		}
	case 1:
		old, err := a.Set(uint64(idx), newElem)
		vhAssert(err == nil, "set: in range never fails")
		if err != nil {
			return
		}
		ov, _ := old.StoredValue(storage)
		vhAssert(vhTagOf(ov) == model[idx], "set: previous element")
		vhDispose(storage, old)
		model[idx] = newTag
	case 2:
		err := a.Insert(uint64(idx), newElem)
		vhAssert(err == nil, "insert: in range never fails")
		if err != nil {
			return
		}
		model = vhInsertModel(model, idx, newTag)
	case 3:
		old, err := a.Remove(uint64(idx))
		vhAssert(err == nil, "remove: in range never fails")
		if err != nil {
			return
		}
		ov, _ := old.StoredValue(storage)
		vhAssert(vhTagOf(ov) == model[idx], "remove: removed element")
		vhDispose(storage, old)
		model = vhRemoveModel(model, idx)
	}
	_ = n
	vhAssert(a.SlabID() == rootID, "root id stable")
	vhCheckDirtyMarks(logst, snap, "dirty marks")
	vhCheckArray(a, addr, model, "post")
	b, err := NewArrayWithRootID(logst, rootID)
	vhAssert(err == nil, "reopen by root id")
	if err == nil {
		vhAssert(b.Count() == uint64(len(model)), "reopened: count")
	}
	vhAssert(vhStorageSlabCount(storage) == vhArraySlabCount(storage, rootID), "no leaked or dangling slabs")
	vhReach("deep-step-done")
}

// A container that was created and never touched is a stored value: its root
// slab was handed to Store (so the next commit persists it), storage holds
// exactly that slab, it can be reopened by its root identifier, is valid and
// empty. Every constructor: NewArray, NewMap, the batch builders on an empty
// stream, ByteSliceToByteArray on an empty slice.
//
//vh:prop C01 C02 C03 C09 C17
func VH_C01_FreshContainers() {
	vhSetThreshold(256)
	logst := &vLogStorage{BasicSlabStorage: vhNewBasicStorage(), stored: map[SlabID]bool{}}
	addr := vhAddr(1)
	b := &vDigesterBuilder{levels: 4}
	var rootID SlabID
	isMap := false
	switch vhChoose("ctor", 5) {
	case 0:
		a, err := NewArray(logst, addr, vTypeInfo{id: 42})
		vhAssert(err == nil, "NewArray")
		rootID = a.SlabID()
	case 1:
		m, err := NewMap(logst, addr, b, vTypeInfo{id: 42})
		vhAssert(err == nil, "NewMap")
		rootID = m.SlabID()
		isMap = true
	case 2:
		a, err := NewArrayFromBatchData(logst, addr, vTypeInfo{id: 42}, func() (Value, error) { return nil, nil })
		vhAssert(err == nil, "NewArrayFromBatchData(empty)")
		rootID = a.SlabID()
	case 3:
		m, err := NewMapFromBatchData(logst, addr, b, vTypeInfo{id: 42}, vhCompare, vhHip, 7, func() (Value, Value, error) { return nil, nil, nil })
		vhAssert(err == nil, "NewMapFromBatchData(empty)")
		rootID = m.SlabID()
		isMap = true
	case 4:
		a, err := ByteSliceToByteArray[vByte](logst, addr, vTypeInfo{id: 42}, nil, 0)
		vhAssert(err == nil, "ByteSliceToByteArray(empty)")
		rootID = a.SlabID()
	}
	vhAssert(logst.stored[rootID], "fresh container's root was handed to Store")
	vhAssert(vhStorageSlabCount(logst.BasicSlabStorage) == 1, "storage holds exactly the fresh root")
	if isMap {
		m, err := NewMapWithRootID(logst, rootID, b)
		vhAssert(err == nil, "fresh map reopens by its root identifier")
		if err == nil {
			vhCheckMap(m, addr, nil, "fresh map")
		}
	} else {
		a, err := NewArrayWithRootID(logst, rootID)
		vhAssert(err == nil, "fresh array reopens by its root identifier")
		if err == nil {
			vhCheckArray(a, addr, nil, "fresh array")
		}
	}
	vhReach("fresh-done")
}
