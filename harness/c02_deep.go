//go:build verif

package atree

// C02/C05 on three-level map trees: root index slab -> index slabs -> leaves
// of single elements. Complements VH_C02_MapStep (two levels) by running the
// recursion through NON-ROOT index slabs: split of an index child, merge and
// borrow between index siblings, root collapse, first-digest propagation over
// two levels. Slab size 256: a non-root map index slab holds 7..20 children.

// Only the leaves within one position of the target leaf (global leaf index
// focus) get symbolic key/value sizes; the others hold 10-byte keys and 20-byte
// values: they take part in the operation only through their headers.
func vhBuildMapDeep(storage SlabStorage, addr Address, b *vDigesterBuilder, kids []int, perLeaf int, focus int) (*OrderedMap, []vhKV) {
	leafNo := 0
	rootID, _ := storage.GenerateSlabID(addr)
	var kvs []vhKV
	nextID := uint64(1)
	total := 0
	for _, k := range kids {
		total += k * perLeaf
	}
	extra := &MapExtraData{TypeInfo: vTypeInfo{id: 42}, Count: uint64(total), Seed: 7}
	root := &MapMetaDataSlab{
		header:    MapSlabHeader{slabID: rootID, size: mapMetaDataSlabPrefixSize + mapSlabHeaderSize*uint32(len(kids))},
		extraData: extra,
	}
	var prevLeaf *MapDataSlab
	var all []Slab
	for _, k := range kids {
		mid, _ := storage.GenerateSlabID(addr)
		meta := &MapMetaDataSlab{
			header: MapSlabHeader{slabID: mid, size: mapMetaDataSlabPrefixSize + mapSlabHeaderSize*uint32(k)},
		}
		vhAssume(meta.header.size >= minThreshold)
		vhAssume(meta.header.size <= maxThreshold)
		for j := 0; j < k; j++ {
			id, _ := storage.GenerateSlabID(addr)
			es := newHkeyElements(0)
			for e := 0; e < perLeaf; e++ {
				// first-level digests live in disjoint ascending windows (odd
				// windows; the even ones are left for new keys): only their
				// order matters to the code, and interval reasoning then
				// decides every comparison between different keys
				sym := leafNo >= focus-1 && leafNo <= focus+1
				key := vhNewKeyWin(nextID, (2*nextID-1)*vhDigWin, (2*nextID-1)*vhDigWin+vhDigWin-1, sym)
				vs := uint32(20)
				if sym {
					vs = vhRange32("vsz", 1, 32768)
					vhAssume(vs <= maxInlineMapValueSize(key.size))
				}
				val := vElem{tag: 1000 + nextID, size: vs}
				el := &singleElement{key: key, value: val, size: singleElementPrefixSize + key.size + vs}
				es.hkeys = append(es.hkeys, Digest(key.d[0]))
				es.elems = append(es.elems, el)
				es.size += digestSize + el.size
				kvs = append(kvs, vhKV{key: key, val: val.tag})
				nextID++
			}
			leaf := &MapDataSlab{
				header:   MapSlabHeader{slabID: id, size: mapDataSlabPrefixSize + es.size, firstKey: es.firstKey()},
				elements: es,
			}
			vhAssume(leaf.header.size >= minThreshold)
			vhAssume(leaf.header.size <= maxThreshold)
			if prevLeaf != nil {
				prevLeaf.next = id
			}
			prevLeaf = leaf
			leafNo++
			all = append(all, leaf)
			meta.childrenHeaders = append(meta.childrenHeaders, leaf.header)
		}
		meta.header.firstKey = meta.childrenHeaders[0].firstKey
		all = append(all, meta)
		root.childrenHeaders = append(root.childrenHeaders, meta.header)
	}
	root.header.firstKey = root.childrenHeaders[0].firstKey
	for _, s := range all {
		_ = storage.Store(s.SlabID(), s)
	}
	_ = storage.Store(rootID, root)
	return &OrderedMap{Storage: storage, root: root, digesterBuilder: b}, kvs
}

const vhDigWin = uint64(1) << 32

// vhNewKeyWin: like vhNewKey with the first-level digest in [lo,hi].
func vhNewKeyWin(id uint64, lo, hi uint64, sym bool) vKey {
	k := vKey{id: id}
	if !sym {
		// far from the operation: concrete size and digests
		k.size = 10
		k.d = [4]uint64{lo + 5, id, id, id}
		return k
	}
	k.size = vhRange32("ksz", 1, 32768)
	vhAssume(k.size <= maxInlineMapKeySize)
	k.d[0] = vhRange("dig0", lo, hi)
	for i := 1; i < len(k.d); i++ {
		k.d[i] = vhU64("dig")
	}
	return k
}

func vhDeepMapShape() []int {
	shapes := [][]int{
		{7, 7},   // both minimal: leaf merge underflows an index slab, siblings merge, root collapses
		{20, 7},  // left full: a leaf split overflows it
		{7, 8},   // left underflows, right can lend
		{8, 7},   // right underflows, left can lend
		{7, 20},  // right full
		{20, 20}, // both full: index slab split
		{7, 7, 7},
	}
	n := vhParam("shapes", 2)
	return shapes[vhChoose("shape", n)]
}

//vh:prop C02 C05
//vh:propthorough C09 C03
//vh:param shapes 2 7
//vh:param perleaf 3 3
func VH_C02_DeepMapStep() {
	vhSetThreshold(256)
	logst := &vLogStorage{BasicSlabStorage: vhNewBasicStorage()}
	storage := logst.BasicSlabStorage
	addr := vhAddr(1)
	b := &vDigesterBuilder{levels: 4}
	kids := vhDeepMapShape()
	perLeaf := vhParam("perleaf", 3)
	mi := vhChoose("meta", len(kids))
	k := kids[mi]
	var lp int
	switch vhChoose("leafpos", 4) {
	case 0:
		lp = 0
	case 1:
		lp = 1
	case 2:
		lp = k - 2
	case 3:
		lp = k - 1
	}
	base := 0
	for i := 0; i < mi; i++ {
		base += kids[i] * perLeaf
	}
	base += lp * perLeaf
	m, model := vhBuildMapDeep(logst, addr, b, kids, perLeaf, base/perLeaf)
	rootID := m.SlabID()
	snap := vhSnapshotAll(logst)
	e := vhChoose("elem", perLeaf)
	idx := base + e

	switch vhChoose("op", 3) {
	case 0: // Set a new key whose first digest falls just before model[idx] (a smaller
		// digest than everything when idx == 0: first-digest propagation to the root)
		nk := vhNewKeyWin(9999, uint64(2*idx)*vhDigWin, uint64(2*idx)*vhDigWin+vhDigWin-1, true)
		vs := vhRange32("newvsz", 1, 65536)
		old, err := m.Set(vhCompare, vhHip, nk, vElem{tag: 5555, size: vs})
		vhAssert(err == nil, "set new: no error")
		if err != nil {
			return
		}
		vhAssert(old == nil, "set new: no previous value")
		model = append(model, vhKV{key: nk, val: 5555})
	case 1: // overwrite (size change can split or underflow)
		vs := vhRange32("newvsz", 1, 65536)
		old, err := m.Set(vhCompare, vhHip, model[idx].key, vElem{tag: 5555, size: vs})
		vhAssert(err == nil, "set existing: no error")
		if err != nil {
			return
		}
		vhAssert(old != nil, "set existing: previous value returned")
		if old != nil {
			ov, _ := old.StoredValue(storage)
			vhAssert(vhTagOf(ov) == model[idx].val, "set existing: previous value")
			vhDispose(storage, old)
		}
		model[idx].val = 5555
	case 2: // remove
		ks, vs, err := m.Remove(vhCompare, vhHip, model[idx].key)
		vhAssert(err == nil, "remove present: no error")
		if err != nil {
			return
		}
		kid, _ := vhKeyID(ks, storage)
		vhAssert(kid == model[idx].key.id, "remove: key")
		rv, _ := vs.StoredValue(storage)
		vhAssert(vhTagOf(rv) == model[idx].val, "remove: value")
		vhDispose(storage, ks)
		vhDispose(storage, vs)
		model = append(append([]vhKV{}, model[:idx]...), model[idx+1:]...)
	}
	vhAssert(m.SlabID() == rootID, "root id stable")
	vhCheckDirtyMarks(logst, snap, "dirty marks")
	vhCheckMap(m, addr, model, "post")
	m2, err := NewMapWithRootID(logst, rootID, b)
	vhAssert(err == nil, "reopen by root id")
	if err == nil {
		vhAssert(m2.Count() == uint64(len(model)), "reopened: count")
	}
	vhAssert(vhStorageSlabCount(storage) == vhMapSlabCount(storage, rootID), "no leaked or dangling slabs")
	vhReach("deep-map-step-done")
}
