//go:build verif

package atree

import (
	"errors"
	"fmt"
)

// C15 / C03 / C04 / C14: the real PersistentSlabStorage over a ledger double.
// One inductive step of every storage API call from any coherent
// (write set, cache, ledger) state over a small universe of identifiers.

// Per-identifier state: what the write set, the cache and the ledger hold.
// Versions are symbolic; 0 encodes "absent/deleted".
type vhIDState struct {
	id      SlabID
	inDelta int // 0 absent, 1 deleted, 2 present
	dVer    uint64
	cb      int // 0 (–,–)   1 (–,v)   2 (cached deleted,–)   3 (v,v)
	bVer    uint64
}

// view: what the storage must show for this identifier (0 = none).
func (s *vhIDState) view() uint64 {
	switch s.inDelta {
	case 1:
		return 0
	case 2:
		return s.dVer
	}
	if s.cb == 1 || s.cb == 3 {
		return s.bVer
	}
	return 0
}

func (s *vhIDState) committed() uint64 {
	if s.cb == 1 || s.cb == 3 {
		return s.bVer
	}
	return 0
}

// vhUniverse: owned identifiers over two owners, optionally one temporary.
func vhUniverse(owned int, temp bool) []SlabID {
	ids := append([]SlabID{}, []SlabID{vhSlabID(1, 5), vhSlabID(1, 3), vhSlabID(2, 1)}[:owned]...)
	if temp {
		ids = append(ids, vhSlabID(0, 4))
	}
	return ids
}

// vhCoherentState installs an arbitrary coherent state.
func vhCoherentState(st *PersistentSlabStorage, base *vBase, ids []SlabID) []*vhIDState {
	var out []*vhIDState
	for _, id := range ids {
		s := &vhIDState{id: id}
		temp := id.address == AddressUndefined
		s.inDelta = vhChoose("delta", 3)
		if s.inDelta == 2 {
			s.dVer = vhRange("dver", 1, 200)
			st.deltas[id] = vhVerSlab(id, s.dVer)
		} else if s.inDelta == 1 {
			st.deltas[id] = nil
		}
		if !temp {
			s.cb = vhChoose("cachebase", 4)
			switch s.cb {
			case 1:
				s.bVer = vhRange("bver", 1, 200)
				base.regs[id] = vhRegister(id, s.bVer)
			case 2:
				st.cache[id] = nil
			case 3:
				s.bVer = vhRange("bver", 1, 200)
				base.regs[id] = vhRegister(id, s.bVer)
				st.cache[id] = vhVerSlab(id, s.bVer)
			}
		}
		out = append(out, s)
	}
	return out
}

// vhCheckView: Retrieve shows the model's view for every identifier.
func vhCheckView(st *PersistentSlabStorage, states []*vhIDState, want []uint64, what string) {
	for i, s := range states {
		slab, found, err := st.Retrieve(s.id)
		vhAssert(err == nil, what+": retrieve no error")
		if want[i] == 0 {
			vhAssert(!found, what+": absent id not found")
			continue
		}
		vhAssert(found, what+": present id found")
		if found {
			v, ok := vhVersionOf(slab)
			vhAssert(ok, what+": slab kind")
			vhAssert(v == want[i], what+": read-your-writes / committed version")
		}
	}
}

func vhBaseVersion(base *vBase, id SlabID) uint64 {
	b, ok := base.regs[id]
	if !ok {
		return 0
	}
	return vhBytesVersion(b)
}

func vhIsExternal(err error) bool {
	var ee *ExternalError
	return errors.As(err, &ee)
}

//vh:prop C15 C03
//vh:stubs codec
//vh:param owned 3 3
//vh:param maxworkers 1 2
func VH_C15_StorageStep() {
	vhStorageStep(vhUniverse(vhParam("owned", 3), false), false)
}

// One step of a commit during which the ledger fails one identifier, from any
// coherent state over a smaller universe.
//
//vh:prop C15 C14 C03
//vh:stubs codec
//vh:param owned 2 3
//vh:param maxworkers 1 2
func VH_C15_FaultyCommitStep() {
	vhStorageStep(vhUniverse(vhParam("owned", 2), vhChoose("temp", 2) == 1), true)
}

// Same step over a universe with a temporary-address identifier.
//
//vh:prop C15 C03
//vh:stubs codec
//vh:param owned 1 2
//vh:param maxworkers 1 2
func VH_C15_StorageStepTemp() {
	vhStorageStep(vhUniverse(vhParam("owned", 1), true), false)
}

func vhStorageStep(ids []SlabID, faultyCommitOnly bool) {
	nids := len(ids)
	base := newVBase()
	st := vhNewPersistent(base)
	states := vhCoherentState(st, base, ids)
	view := make([]uint64, len(states))
	for i, s := range states {
		view[i] = s.view()
	}
	logBefore := len(base.log)
	op := 10
	if !faultyCommitOnly {
		op = vhChoose("op", 10)
	}
	k := 0
	if op <= 4 || op >= 9 {
		k = vhChoose("which", nids)
	}
	id := ids[k]
	commitOp := false
	faultyCommit := false
	switch op {
	case 0: // Store
		nv := vhRange("newver", 1, 200)
		err := st.Store(id, vhVerSlab(id, nv))
		vhAssert(err == nil, "store: no error")
		view[k] = nv
	case 1: // Remove
		err := st.Remove(id)
		vhAssert(err == nil, "remove: no error")
		view[k] = 0
	case 2: // RetrieveIfLoaded: loaded <=> in write set or cache, never touches the ledger
		slab := st.RetrieveIfLoaded(id)
		s := states[k]
		switch {
		case s.inDelta == 2:
			v, _ := vhVersionOf(slab)
			vhAssert(slab != nil && v == s.dVer, "if-loaded: pending version")
		case s.inDelta == 1:
			vhAssert(slab == nil, "if-loaded: pending delete")
		case s.cb == 3:
			v, _ := vhVersionOf(slab)
			vhAssert(slab != nil && v == s.bVer, "if-loaded: cached version")
		default:
			vhAssert(slab == nil, "if-loaded: not loaded")
		}
	case 3: // RetrieveIgnoringDeltas: committed value, optional cache fill
		fill := vhChoose("fill", 2) == 1
		slab, found, err := st.RetrieveIgnoringDeltas(id, fill)
		vhAssert(err == nil, "ignoring-deltas: no error")
		c := states[k].committed()
		vhAssert(found == (c != 0), "ignoring-deltas: found iff committed")
		if found {
			v, _ := vhVersionOf(slab)
			vhAssert(v == c, "ignoring-deltas: committed version")
		}
	case 4: // undefined identifier is rejected and changes nothing
		vhAssert(st.Store(SlabIDUndefined, vhVerSlab(SlabIDUndefined, 1)) != nil, "store undefined id: error")
		vhAssert(st.Remove(SlabIDUndefined) != nil, "remove undefined id: error")
	case 5: // deterministic commit
		w := 1 + vhChoose("workers", vhParam("maxworkers", 1))
		err := st.FastCommit(w)
		vhAssert(err == nil, "commit: no error without faults")
		commitOp = true
	case 6: // order-relaxed commit
		w := 1 + vhChoose("workers", vhParam("maxworkers", 1))
		err := st.NondeterministicFastCommit(w)
		vhAssert(err == nil, "relaxed commit: no error without faults")
		commitOp = true
	case 7: // drop write set and cache: back to the last commit
		st.DropDeltas()
		st.DropCache()
		for i, s := range states {
			view[i] = s.committed()
		}
	case 9: // a ledger read fails: external error, and NOTHING is remembered about it --
		// once the ledger answers again the view is what it was
		base.retrFail = base.nretr + 1
		var err error
		switch vhChoose("readapi", 3) {
		case 0:
			_, _, err = st.Retrieve(id)
		case 1:
			_, _, err = st.RetrieveIgnoringDeltas(id, vhChoose("fill", 2) == 1)
		case 2:
			err = st.BatchPreload([]SlabID{id}, 1)
		}
		reached := base.nretr >= base.retrFail
		base.retrFail = 0
		if reached {
			vhAssert(err != nil, "failing ledger read surfaces")
			vhAssert(vhIsExternal(err), "failing ledger read is an external error")
		} else {
			vhAssert(err == nil, "read served without the ledger succeeds")
		}
	case 10: // a commit during which the ledger fails the write/delete of ONE identifier:
		// the commit reports an external error, the view is unchanged, the failed
		// entry stays pending with its register untouched, every other owned entry
		// is either written (register = view, no longer pending) or still pending
		// (register untouched)
		base.faults = map[SlabID]bool{id: true}
		w := 1 + vhChoose("workers", vhParam("maxworkers", 1))
		var err error
		if vhChoose("relaxed", 2) == 1 {
			err = st.NondeterministicFastCommit(w)
		} else {
			err = st.FastCommit(w)
		}
		base.faults = nil
		faultedPending := states[k].inDelta != 0 && id.address != AddressUndefined
		if faultedPending {
			vhAssert(err != nil, "faulty commit reports an error")
			vhAssert(vhIsExternal(err), "faulty commit: external error")
		} else {
			vhAssert(err == nil, "commit without a triggered fault succeeds")
		}
		for i, s := range states {
			if s.id.address == AddressUndefined {
				continue
			}
			_, pending := st.deltas[s.id]
			if s.inDelta == 0 {
				vhAssert(!pending, "faulty commit: nothing becomes pending")
				continue
			}
			if i == k {
				vhAssert(pending, "faulty commit: the failed entry stays pending")
			}
			if pending {
				vhAssert(vhBaseVersion(base, s.id) == s.committed(), "faulty commit: a pending entry's register is untouched")
			} else {
				vhAssert(vhBaseVersion(base, s.id) == view[i], "faulty commit: a written entry's register equals the view")
			}
		}
		commitOp = true
		faultyCommit = true
	case 8: // preload (sequential path) never changes the view
		err := st.BatchPreload(ids, 2)
		vhAssert(err == nil, "preload: no error")
	}
	// no ledger writes outside commit (C03)
	if !commitOp {
		vhAssert(len(base.log) == logBefore, "no ledger write or delete outside commit")
	}
	vhCheckView(st, states, view, "view after op")
	if commitOp && !faultyCommit {
		for i, s := range states {
			if s.id.address == AddressUndefined {
				// temporary slabs are never written and stay pending
				_, inLedger := base.regs[s.id]
				vhAssert(!inLedger, "temp slab never written")
				continue
			}
			vhAssert(vhBaseVersion(base, s.id) == view[i], "commit: ledger equals view")
			_, pending := st.deltas[s.id]
			vhAssert(!pending, "commit: owned write set emptied")
		}
		vhAssert(st.DeltasWithoutTempAddresses() == 0, "commit: no owned pending changes")
		// a brand-new storage over the same ledger reconstructs the view (C03)
		st2 := vhNewPersistent(base)
		for i, s := range states {
			if s.id.address == AddressUndefined {
				continue
			}
			slab, found, err := st2.Retrieve(s.id)
			vhAssert(err == nil, "reopen: no error")
			vhAssert(found == (view[i] != 0), "reopen: found iff committed")
			if found {
				v, _ := vhVersionOf(slab)
				vhAssert(v == view[i], "reopen: committed version")
			}
		}
	}
	// auxiliary observations agree with the model
	npending, nowned := 0, 0
	for i, s := range states {
		_ = i
		if _, ok := st.deltas[s.id]; ok {
			npending++
			if s.id.address != AddressUndefined {
				nowned++
			}
		}
	}
	vhAssert(st.Deltas() == uint(npending), "Deltas counts pending changes")
	vhAssert(st.DeltasWithoutTempAddresses() == uint(nowned), "owned pending count")
	// pending size: sum of the sizes of owned pending (non-deleted) slabs
	wantSize := uint64(0)
	for _, s := range states {
		if slab, ok := st.deltas[s.id]; ok && slab != nil && s.id.address != AddressUndefined {
			wantSize += uint64(slab.ByteSize())
		}
	}
	vhAssert(st.DeltasSizeWithoutTempAddresses() == wantSize, "owned pending size")
	// has-unsaved-changes per owner (incl. the temporary address and an owner with nothing pending)
	for _, a := range []Address{vhAddr(1), vhAddr(2), AddressUndefined, vhAddr(9)} {
		want := false
		for _, s := range states {
			if _, ok := st.deltas[s.id]; ok && s.id.address == a {
				want = true
			}
		}
		vhAssert(st.HasUnsavedChanges(a) == want, "has-unsaved-changes per owner")
	}
	vhReach("storage-step-done")
}

// vLedger: a ledger double (registers by owner and key) with per-call faults.
type vLedger struct {
	regs    map[string][]byte
	keys    []string
	next    map[string]uint64
	failAt  int
	calls   int
}

func (l *vLedger) tick() error {
	l.calls++
	if l.failAt != 0 && l.calls == l.failAt {
		return fmt.Errorf("injected ledger failure")
	}
	return nil
}
func (l *vLedger) GetValue(owner, key []byte) ([]byte, error) {
	if err := l.tick(); err != nil {
		return nil, err
	}
	return l.regs[string(owner)+"|"+string(key)], nil
}
func (l *vLedger) SetValue(owner, key, value []byte) error {
	if err := l.tick(); err != nil {
		return err
	}
	k := string(owner) + "|" + string(key)
	l.keys = append(l.keys, string(key))
	if len(value) == 0 {
		delete(l.regs, k)
	} else {
		l.regs[k] = value
	}
	return nil
}
func (l *vLedger) ValueExists(owner, key []byte) (bool, error) {
	_, ok := l.regs[string(owner)+"|"+string(key)]
	return ok, nil
}
func (l *vLedger) AllocateSlabIndex(owner []byte) (SlabIndex, error) {
	if err := l.tick(); err != nil {
		return SlabIndex{}, err
	}
	l.next[string(owner)]++
	var idx SlabIndex
	n := l.next[string(owner)]
	for i := 0; i < 8; i++ {
		idx[7-i] = byte(n >> (8 * uint(i)))
	}
	return idx, nil
}

// The ledger adapter (LedgerBaseStorage): a register written under an
// identifier is read back under that identifier and no other (identifiers that
// differ in any byte of owner or index use different registers), removal makes
// it absent, every key it uses is recognised as a slab key, generated
// identifiers carry the owner, and a ledger failure is an external error.
// Histories of 2→3 operations over identifiers chosen from a set whose members
// differ in single bytes; register contents symbolic.
//
//vh:prop C15 C03
//vh:param ops 2 3
func VH_C15_LedgerBaseStorage() {
	led := &vLedger{regs: map[string][]byte{}, next: map[string]uint64{}}
	bs := NewLedgerBaseStorage(led)
	ids := []SlabID{
		{address: Address{0, 0, 0, 0, 0, 0, 0, 1}, index: SlabIndex{0, 0, 0, 0, 0, 0, 0, 1}},
		{address: Address{0, 0, 0, 0, 0, 0, 0, 1}, index: SlabIndex{0, 0, 0, 0, 0, 0, 1, 0}},
		{address: Address{0, 0, 0, 0, 0, 0, 0, 1}, index: SlabIndex{1, 0, 0, 0, 0, 0, 0, 1}},
		{address: Address{0, 0, 0, 0, 0, 0, 0, 2}, index: SlabIndex{0, 0, 0, 0, 0, 0, 0, 1}},
		{address: Address{1, 0, 0, 0, 0, 0, 0, 1}, index: SlabIndex{0, 0, 0, 0, 0, 0, 0, 1}},
	}
	model := map[int][]byte{}
	nops := vhParam("ops", 2)
	if vhChoose("fault", 2) == 1 {
		led.failAt = 1 + vhChoose("failat", nops)
	}
	for op := 0; op < nops; op++ {
		i := vhChoose("id", len(ids))
		before := led.calls
		var err error
		switch vhChoose("op", 3) {
		case 0:
			data := []byte{vhU8("d"), vhU8("d")}
			err = bs.Store(ids[i], data)
			if err == nil {
				model[i] = data
			}
		case 1:
			err = bs.Remove(ids[i])
			if err == nil {
				delete(model, i)
			}
		case 2:
			id, gerr := bs.GenerateSlabID(ids[i].address)
			err = gerr
			if gerr == nil {
				vhAssert(id.address == ids[i].address, "generated identifier carries the owner")
				vhAssert(id.index != SlabIndex{}, "generated index is not the undefined one")
			}
		}
		failed := led.failAt != 0 && before < led.failAt && led.calls >= led.failAt
		if failed {
			vhAssert(err != nil, "ledger failure surfaces")
			vhAssert(vhIsExternal(err), "ledger failure is an external error")
			led.failAt = 0
		} else {
			vhAssert(err == nil, "ledger call succeeds")
		}
	}
	// read everything back
	for i, id := range ids {
		got, found, err := bs.Retrieve(id)
		vhAssert(err == nil, "retrieve")
		want, ok := model[i]
		vhAssert(found == ok, "found exactly the stored identifiers")
		if ok && found {
			vhAssert(len(got) == len(want), "register length")
			if len(got) == len(want) {
				same := true
				for k := range got {
					same = vhAll(same, got[k] == want[k])
				}
				vhAssert(same, "register content")
			}
		}
	}
	for _, k := range led.keys {
		vhAssert(LedgerKeyIsSlabKey(k), "every key used is recognised as a slab key")
	}
	vhReach("ledger-adapter-done")
}

// Identifier arithmetic on fully symbolic bytes: raw-byte round trip, the
// big-endian readings used for ordering, Compare as byte order, validity, the
// temporary-address test, and identifier generation: SlabIndex.Next is +1 on
// the big-endian value (carries across every byte), so consecutive generated
// identifiers never repeat; the storages' generators hand out distinct, valid
// identifiers with the requested owner (the persistent storage's own counter
// for the temporary address).
//
//vh:prop C15 C09 C04
//vh:mode bv
func VH_C15_SlabIDUnits() {
	var id, other SlabID
	for b := 0; b < SlabAddressLength; b++ {
		id.address[b] = vhU8("a")
		other.address[b] = vhU8("oa")
	}
	for b := 0; b < SlabIndexLength; b++ {
		id.index[b] = vhU8("x")
		other.index[b] = vhU8("ox")
	}
	switch vhChoose("unit", 5) {
	case 0: // raw bytes round trip
		buf := make([]byte, SlabIDLength)
		n, err := id.ToRawBytes(buf)
		vhAssert(err == nil && n == SlabIDLength, "to raw bytes")
		back, err := NewSlabIDFromRawBytes(buf)
		vhAssert(err == nil && back == id, "raw bytes round trip")
		_, err = id.ToRawBytes(make([]byte, SlabIDLength-1))
		vhAssert(err != nil, "short buffer rejected")
	case 1: // big-endian readings
		wantA, wantI := uint64(0), uint64(0)
		for b := 0; b < 8; b++ {
			wantA = wantA<<8 | uint64(id.address[b])
			wantI = wantI<<8 | uint64(id.index[b])
		}
		vhAssert(id.AddressAsUint64() == wantA, "address as big-endian integer")
		vhAssert(id.IndexAsUint64() == wantI, "index as big-endian integer")
		vhAssert(id.HasTempAddress() == (wantA == 0), "temporary address is the zero address")
		vhAssert((id.Valid() == nil) == (wantI != 0), "valid iff the index is defined")
	case 2: // Compare is the order of (address, index) as big-endian integers
		c := id.Compare(other)
		a1, a2 := id.AddressAsUint64(), other.AddressAsUint64()
		i1, i2 := id.IndexAsUint64(), other.IndexAsUint64()
		less := vhAny(a1 < a2, vhAll(a1 == a2, i1 < i2))
		eq := vhAll(a1 == a2, i1 == i2)
		vhAssert((c < 0) == less, "compare: less")
		vhAssert((c == 0) == eq, "compare: equal")
	case 3: // Next is +1 with carries
		i := id.IndexAsUint64()
		vhAssume(i != ^uint64(0))
		n := id.index.Next()
		got := uint64(0)
		for b := 0; b < 8; b++ {
			got = got<<8 | uint64(n[b])
		}
		vhAssert(got == i+1, "next index is the successor")
	case 4: // generators: distinct, valid, right owner -- across a carry
		st := vhNewBasicStorage()
		addr := id.address
		st.slabIndex[addr] = id.index
		vhAssume(id.IndexAsUint64() < ^uint64(0)-2)
		g1, e1 := st.GenerateSlabID(addr)
		g2, e2 := st.GenerateSlabID(addr)
		vhAssert(e1 == nil && e2 == nil, "generate")
		vhAssert(g1 != g2 && g1.address == addr && g2.address == addr, "generated identifiers are distinct and carry the owner")
		vhAssert(g1.Valid() == nil && g2.Valid() == nil, "generated identifiers are valid")
		vhAssert(g1.IndexAsUint64() == id.IndexAsUint64()+1 && g2.IndexAsUint64() == id.IndexAsUint64()+2, "generated indexes count up")
		ps := vhNewPersistent(newVBase())
		ps.tempSlabIndex = id.IndexAsUint64()
		t1, _ := ps.GenerateSlabID(AddressUndefined)
		t2, _ := ps.GenerateSlabID(AddressUndefined)
		vhAssert(t1 != t2 && t1.HasTempAddress() && t2.HasTempAddress(), "temporary identifiers are distinct")
		vhAssert(t1.IndexAsUint64() == id.IndexAsUint64()+1 && t2.IndexAsUint64() == id.IndexAsUint64()+2, "temporary indexes count up")
	}
	vhReach("slabid-units-done")
}
