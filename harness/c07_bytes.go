//go:build verif

package atree

import "fmt"

// C06 (bytes) / C07 / C08: the real slab encoders and decoders over the real
// CBOR library, on containers built through the public API with elements whose
// CBOR width is decided by symbolic values.

// vhFlagsTruthful: header flags readable from the raw register describe the slab.
func vhFlagsTruthful(storage *BasicSlabStorage, id SlabID, what string) {
	slab, ok, _ := storage.Retrieve(id)
	if !ok {
		return
	}
	data, err := EncodeSlab(slab, storage.cborEncMode)
	vhAssert(err == nil, what+": encode")
	if err != nil {
		return
	}
	isRoot, err := IsRootOfAnObject(data)
	vhAssert(err == nil, what+": IsRootOfAnObject no error")
	hasPtr, err := HasPointers(data)
	vhAssert(err == nil, what+": HasPointers no error")
	sizeLimit, err := HasSizeLimit(data)
	vhAssert(err == nil, what+": HasSizeLimit no error")
	switch s := slab.(type) {
	case *ArrayDataSlab:
		vhAssert(isRoot == (s.extraData != nil), what+": root flag")
		vhAssert(hasPtr == vhHasRef(s.elements), what+": pointer flag")
		vhAssert(sizeLimit, what+": size-limit flag")
	case *ArrayMetaDataSlab:
		vhAssert(isRoot == (s.extraData != nil), what+": root flag")
		vhAssert(sizeLimit, what+": size-limit flag")
	case *MapDataSlab:
		vhAssert(isRoot == (s.extraData != nil), what+": root flag")
		vhAssert(hasPtr == vhHasRef(s.ChildStorables()), what+": pointer flag")
		vhAssert(sizeLimit == !s.anySize, what+": size-limit flag")
	case *MapMetaDataSlab:
		vhAssert(isRoot == (s.extraData != nil), what+": root flag")
		vhAssert(sizeLimit, what+": size-limit flag")
	case *StorableSlab:
		vhAssert(!isRoot, what+": storable slab is not a root")
		vhAssert(hasPtr == vhHasRef([]Storable{s.storable}), what+": pointer flag")
		vhAssert(!sizeLimit, what+": storable slab has no size limit")
	}
}

func vhHasRef(cs []Storable) bool {
	for _, c := range cs {
		c = unwrapStorable(c)
		switch c := c.(type) {
		case SlabIDStorable:
			return true
		case *ArrayDataSlab:
			if vhHasRef(c.elements) {
				return true
			}
		case *MapDataSlab:
			if vhHasRef(c.ChildStorables()) {
				return true
			}
		}
	}
	return false
}

// vhByteElem appends one element of a symbolic kind to the array. top: all
// kinds; nested containers hold scalars (every CBOR width) and, while depth
// remains, one further nested array.
func vhByteElem(storage *BasicSlabStorage, addr Address, a *Array, depth int, top bool) {
	kinds := 3
	if top {
		kinds = 4
	}
	if depth > 0 {
		kinds += 2
	}
	k := vhChoose("elem", kinds)
	if !top && k >= 1 {
		k++ // nested: scalar (0), large blob behind a reference (2), small blob (3), child array (4), child map (5)
	}
	switch k {
	case 0:
		_ = a.Append(vU64(vhU64("val")))
	case 1:
		if vhChoose("wrapbig", 2) == 1 {
			// a wrapper around a value too large to inline: the reference sits INSIDE the wrapper
			_ = a.Append(vSomeValue{inner: vBlob{n: 150}})
		} else {
			_ = a.Append(vSomeValue{inner: vU64(vhU64("val"))})
		}
	case 2:
		_ = a.Append(vBlob{n: 150}) // larger than the inline limit => reference to a storable slab
	case 3:
		_ = a.Append(vBlob{n: vhChoose("bloblen", 3) * 12}) // 0, 12 (1-byte head), 24 (2-byte head)
	case 4: // nested array (inlined), possibly wrapped, with its own elements
		c, _ := NewArray(storage, addr, vTypeInfo{id: uint64(40 + depth)})
		n := vhChoose("childlen", 2)
		for i := 0; i < n; i++ {
			vhByteElem(storage, addr, c, depth-1, false)
		}
		if vhChoose("wrapchild", 2) == 1 {
			_ = a.Append(vSomeValue{inner: c})
		} else {
			_ = a.Append(c)
		}
	case 5: // nested map (inlined, non-composite type) with 0..1 entries, real hashing
		m, _ := NewMap(storage, addr, NewDefaultDigesterBuilder(), vTypeInfo{id: uint64(50 + depth)})
		if vhChoose("childlen", 2) == 1 {
			_, _ = m.Set(vhCompareBK, vhHipB, vBKey{val: 77}, vU64(vhU64("val")))
		}
		_ = a.Append(m)
	}
}

//vh:prop C07 C06 C08
//vh:init cbor
//vh:param n 2 3
//vh:param depth 1 2
func VH_C07_ArrayBytes() {
	vhSetThreshold(256)
	storage := vhNewByteStorage()
	addr := vhAddr(1)
	a, err := NewArray(storage, addr, vTypeInfo{id: 42})
	vhAssert(err == nil, "new array")
	n := vhChoose("n", vhParam("n", 2)+1)
	for i := 0; i < n; i++ {
		vhByteElem(storage, addr, a, vhParam("depth", 1), true)
	}
	if vhChoose("multi", 1+vhParam("multi", 1)) == 1 {
		// grow to several slabs: root index slab + leaves
		for i := 0; i < 4; i++ {
			_ = a.Append(vBlob{n: 100})
		}
	}
	verr := VerifyArray(a, addr, vTypeInfo{id: 42}, vhTic, vhHipB, true)
	vhAssert(verr == nil, "array valid")
	// encode -> decode -> encode identity, reported size == encoded size, decoded fields equal
	serr := VerifyArraySerialization(a, storage.cborDecMode, storage.cborEncMode, vhDecodeStorableB, vhDecodeTypeInfo, vhStorableEqual)
	vhAssert(serr == nil, "round trip: identical bytes, equal fields, size == bytes")
	for id := range storage.Slabs {
		vhFlagsTruthful(storage, id, "flags")
	}
	vhReach("bytes-done")
}

//vh:prop C07 C06 C08
//vh:init cbor
//vh:param keys 2 3
func VH_C07_MapBytes() {
	vhSetThreshold(256)
	storage := vhNewByteStorage()
	addr := vhAddr(1)
	b := &vDigesterBuilder{levels: 1 << uint(vhChoose("levels", 2)+1), known: map[uint64][4]uint64{}} // 2 or 4 digest levels
	m, err := NewMap(storage, addr, b, vTypeInfo{id: 42})
	vhAssert(err == nil, "new map")
	n := vhChoose("n", vhParam("keys", 2)+1)
	for i := 0; i < n; i++ {
		var key Value
		k := vBKey{val: uint64(i + 1)}
		for l := range k.d {
			k.d[l] = vhU64("dig")
		}
		b.known[k.val] = k.d
		key = k
		if i == 0 && vhChoose("bigkey", 2) == 1 {
			// key too large to inline: stored as a reference to a storable slab
			bk := vBlobKey{n: 150, d: k.d}
			b.known[uint64(1<<32)+150] = k.d
			key = bk
		}
		var val Value
		switch vhChoose("valkind", 6) {
		case 5:
			val = vSomeValue{inner: vBlob{n: 150}} // the reference sits inside a wrapper
		case 0:
			val = vU64(vhU64("val"))
		case 1:
			val = vSomeValue{inner: vU64(vhU64("val"))}
		case 2:
			val = vBlob{n: 150} // stored as a reference to a storable slab
		case 3:
			val = vBlob{n: 60} // big enough that two of them spill a collision group to an external slab
		case 4: // nested array (inlined) with one scalar
			c, _ := NewArray(storage, addr, vTypeInfo{id: 43})
			switch vhChoose("childlen", 3) {
			case 1:
				_ = c.Append(vU64(vhU64("val")))
			case 2:
				_ = c.Append(vBlob{n: 150}) // the inlined child holds a reference
			}
			val = c
			if vhChoose("wrapchild", 2) == 1 {
				val = vSomeValue{inner: c}
			}
		}
		_, err := m.Set(vhCompareBK, vhHip, key, val)
		vhAssert(err == nil, "set")
	}
	if n <= 1 && vhChoose("multi", 2) == 1 {
		// grow to several slabs (real hashing would need the default builder; the
		// harness builder serves known digests): root index slab + leaves
		for i := 0; i < 5; i++ {
			k := vBKey{val: uint64(50 + i), d: [4]uint64{uint64(1000 * (i + 1)), 1, 1, 1}}
			b.known[k.val] = k.d
			_, err := m.Set(vhCompareBK, vhHip, k, vBlob{n: 80})
			vhAssert(err == nil, "set (filler)")
		}
		_, isMeta := m.root.(*MapMetaDataSlab)
		vhRequire(isMeta, "filled map has an index root")
	}
	verr := VerifyMap(m, addr, vTypeInfo{id: 42}, vhTic, vhHip, true)
	vhAssert(verr == nil, "map valid")
	serr := VerifyMapSerialization(m, storage.cborDecMode, storage.cborEncMode, vhDecodeStorableB, vhDecodeTypeInfo, vhStorableEqual)
	vhAssert(serr == nil, "round trip: identical bytes, equal fields, size == bytes")
	for id := range storage.Slabs {
		vhFlagsTruthful(storage, id, "flags")
	}
	vhReach("bytes-done")
}

// vhHipB: hash input of byte-level keys (8 bytes, big endian) -- used with the
// library's default digester builder, so first-level digests are the real
// CircleHash64 of these bytes (computed by the real library, concrete).
func vhHipB(v Value, _ []byte) ([]byte, error) {
	var x uint64
	switch k := v.(type) {
	case vBKey:
		x = k.val
	case vU64:
		x = uint64(k)
	default:
		return nil, fmt.Errorf("unexpected key %T", v)
	}
	b := make([]byte, 8)
	for i := 0; i < 8; i++ {
		b[i] = byte(x >> (56 - 8*uint(i)))
	}
	return b, nil
}

// vhCompactParent builds a parent map holding nchild inlined child maps of
// one composite type with identical key sets (so they share the compact
// encoding), values symbolic. Real hashing (default digester builder).
func vhCompactParent(storage SlabStorage, addr Address, nchild, nkeys int, name string) (*OrderedMap, []*OrderedMap) {
	vals := make([][]uint64, nchild)
	for c := range vals {
		for k := 0; k < nkeys; k++ {
			vals[c] = append(vals[c], vhU64(name))
		}
	}
	return vhCompactParentVals(storage, addr, vals)
}

func vhCompactParentVals(storage SlabStorage, addr Address, vals [][]uint64) (*OrderedMap, []*OrderedMap) {
	nchild := len(vals)
	parent, _ := NewMap(storage, addr, NewDefaultDigesterBuilder(), vTypeInfo{id: 42})
	var children []*OrderedMap
	for c := 0; c < nchild; c++ {
		child, _ := NewMap(storage, addr, NewDefaultDigesterBuilder(), vCompositeTypeInfo{id: 7})
		for k := range vals[c] {
			_, _ = child.Set(vhCompareBK, vhHipB, vBKey{val: uint64(100 + k)}, vU64(vals[c][k]))
		}
		_, _ = parent.Set(vhCompareBK, vhHipB, vBKey{val: uint64(c + 1)}, child)
		children = append(children, child)
	}
	return parent, children
}

// Compact (same-typed composite) inlined maps: round trip keeps the key-value
// content (seed and internal order may change), bytes <= reported size.
//
//vh:prop C07 C06 C08
//vh:init cbor
//vh:param children 2 3
func VH_C07_CompactMapBytes() {
	vhSetThreshold(256)
	storage := vhNewByteStorage()
	addr := vhAddr(1)
	nchild := 1 + vhChoose("nchild", vhParam("children", 2))
	nkeys := 1 + vhChoose("nkeys", 2)
	parent, _ := vhCompactParent(storage, addr, nchild, nkeys, "cval")
	verr := VerifyMap(parent, addr, vTypeInfo{id: 42}, vhTic, vhHipB, true)
	vhAssert(verr == nil, "map valid")
	serr := VerifyMapSerialization(parent, storage.cborDecMode, storage.cborEncMode, vhDecodeStorableB, vhDecodeTypeInfo, vhStorableEqual)
	vhAssert(serr == nil, "compact maps: round trip keeps content, re-encoding is identical")
	// the written bytes never exceed the reported size (hoisting only saves)
	root := parent.root.(*MapDataSlab)
	data, err := EncodeSlab(root, storage.cborEncMode)
	vhAssert(err == nil, "encode")
	if err == nil {
		sz, cerr := computeSize(data)
		vhAssert(cerr == nil, "computeSize")
		vhAssert(uint32(sz) <= root.header.size, "compact form: written bytes <= reported size")
		// decode: same key-value content in every child
		dec, derr := DecodeSlab(root.SlabID(), data, storage.cborDecMode, vhDecodeStorableB, vhDecodeTypeInfo)
		vhAssert(derr == nil, "decode")
		if derr == nil {
			vhAssert(dec.ByteSize() == root.ByteSize(), "decoded slab reports the same size")
		}
	}
	vhReach("compact-done")
}

// Many distinct type informations in one register: the shared type table and
// the references into it are CBOR unsigned integers, whose encoding changes
// width at 24 (and 256): registers with 23..26 repeated types must decode
// back to the same children (types, order, content) and re-encode identically.
//
//vh:prop C07 C08
//vh:init cbor
//vh:param maxtypes 26 26
func VH_C07_ManyTypeInfos() {
	vhSetThreshold(8192)
	storage := vhNewByteStorage()
	addr := vhAddr(1)
	lo := 23
	ntypes := lo + vhChoose("ntypes", vhParam("maxtypes", 26)-lo+1)
	mapKind := vhChoose("kind", 2) == 1
	parent, _ := NewArray(storage, addr, vTypeInfo{id: 42})
	_ = parent.Append(vU64(vhU64("first"))) // a scalar of any CBOR width in front
	var wantTypes []uint64
	// each type used once (extra-data index >= 24 without a shared table) or twice (shared table)
	reps := 1 + vhChoose("reps", 2)
	for rep := 0; rep < reps; rep++ {
		for t := 0; t < ntypes; t++ {
			ty := uint64(100 + t)
			if mapKind {
				m, _ := NewMap(storage, addr, NewDefaultDigesterBuilder(), vTypeInfo{id: ty})
				_ = parent.Append(m)
			} else {
				a, _ := NewArray(storage, addr, vTypeInfo{id: ty})
				_ = parent.Append(a)
			}
			wantTypes = append(wantTypes, ty)
		}
	}
	root := parent.root
	vhAssert(root.IsData(), "single slab")
	b1, err := EncodeSlab(root, storage.cborEncMode)
	vhAssert(err == nil, "encode")
	if err != nil {
		return
	}
	s2, derr := DecodeSlab(root.SlabID(), b1, storage.cborDecMode, vhDecodeStorableB, vhDecodeTypeInfo)
	vhAssert(derr == nil, "a register produced by the library decodes")
	if derr != nil {
		return
	}
	ds, ok := s2.(*ArrayDataSlab)
	vhAssert(ok && len(ds.elements) == 1+reps*ntypes, "decoded element count")
	if ok && len(ds.elements) == 1+reps*ntypes {
		for i, want := range wantTypes {
			var got TypeInfo
			switch c := ds.elements[i+1].(type) {
			case *ArrayDataSlab:
				got = c.extraData.TypeInfo
			case *MapDataSlab:
				got = c.extraData.TypeInfo
			}
			vhAssert(vhTic(got, vTypeInfo{id: want}), "decoded child keeps its type")
		}
	}
	b2, err2 := EncodeSlab(s2, storage.cborEncMode)
	vhAssert(err2 == nil && len(b2) == len(b1), "re-encode length")
	if err2 == nil && len(b2) == len(b1) {
		same := true
		for i := range b1 {
			same = vhAll(same, b1[i] == b2[i])
		}
		vhAssert(same, "re-encode of the decoded slab is identical")
	}
	vhReach("many-types-done")
}

// Inlined children of MIXED kinds in one register: each of 3→4 positions of a
// parent array holds, by choice, an inlined array, an inlined plain map, or a
// composite map of shape A {100,101} or shape B {100,102} (same-shaped
// composites share one compact extra-data entry; arrays and plain maps get
// entries of their own, interleaved with them). The register decodes back to
// children of the same kinds, types and key/value content in the same order,
// and encoding the decoded slab is a fixed point.
//
//vh:prop C07 C08
//vh:init cbor
//vh:param positions 3 4
func VH_C07_MixedInlinedKinds() {
	vhSetThreshold(1024)
	storage := vhNewByteStorage()
	addr := vhAddr(1)
	npos := vhParam("positions", 3)
	parent, _ := NewArray(storage, addr, vTypeInfo{id: 42})
	kinds := make([]int, npos)
	for i := range kinds {
		kinds[i] = vhChoose("kind", 6)
		val := uint64(10 * (i + 1))
		switch kinds[i] {
		case 0:
			a, _ := NewArray(storage, addr, vTypeInfo{id: 50})
			_ = a.Append(vU64(val))
			_ = parent.Append(a)
		case 1:
			m, _ := NewMap(storage, addr, NewDefaultDigesterBuilder(), vTypeInfo{id: 51})
			_, _ = m.Set(vhCompareBK, vhHipB, vBKey{val: 100}, vU64(val))
			_ = parent.Append(m)
		case 4: // an inlined array whose type encodes to the same bytes as composite type 7
			a, _ := NewArray(storage, addr, vTypeInfo{id: 1007})
			_ = a.Append(vU64(val))
			_ = parent.Append(a)
		case 5: // an EMPTY composite map (no fields: its compact type id is its bare type)
			m, _ := NewMap(storage, addr, NewDefaultDigesterBuilder(), vCompositeTypeInfo{id: 7})
			_ = parent.Append(m)
		case 2, 3:
			m, _ := NewMap(storage, addr, NewDefaultDigesterBuilder(), vCompositeTypeInfo{id: 7})
			second := uint64(101)
			if kinds[i] == 3 {
				second = 102
			}
			_, _ = m.Set(vhCompareBK, vhHipB, vBKey{val: 100}, vU64(val))
			_, _ = m.Set(vhCompareBK, vhHipB, vBKey{val: second}, vU64(val+1))
			_ = parent.Append(m)
		}
	}
	root := parent.root
	vhAssert(root.IsData(), "single slab")
	b1, err := EncodeSlab(root, storage.cborEncMode)
	vhAssert(err == nil, "encode")
	if err != nil {
		return
	}
	s2, derr := DecodeSlab(root.SlabID(), b1, storage.cborDecMode, vhDecodeStorableB, vhDecodeTypeInfo)
	vhAssert(derr == nil, "a register produced by the library decodes")
	if derr != nil {
		return
	}
	ds, ok := s2.(*ArrayDataSlab)
	vhAssert(ok && len(ds.elements) == npos, "decoded element count")
	if !ok || len(ds.elements) != npos {
		return
	}
	field := func(m *MapDataSlab, key uint64) (uint64, bool) {
		he, ok := m.elements.(*hkeyElements)
		if !ok {
			return 0, false
		}
		for _, el := range he.elems {
			se, ok := el.(*singleElement)
			if !ok {
				continue
			}
			if k, ok := se.key.(vU64); ok && uint64(k) == key {
				v, ok := se.value.(vU64)
				return uint64(v), ok
			}
		}
		return 0, false
	}
	for i, kd := range kinds {
		val := uint64(10 * (i + 1))
		switch kd {
		case 0:
			c, ok := ds.elements[i].(*ArrayDataSlab)
			vhAssert(ok, "position decodes as an inlined array")
			if ok {
				vhAssert(vhTic(c.extraData.TypeInfo, vTypeInfo{id: 50}), "inlined array keeps its type")
				vhAssert(len(c.elements) == 1 && vhStorableEqual(c.elements[0], vU64(val)), "inlined array keeps its content")
			}
		case 1:
			c, ok := ds.elements[i].(*MapDataSlab)
			vhAssert(ok, "position decodes as an inlined map")
			if ok {
				vhAssert(vhTic(c.extraData.TypeInfo, vTypeInfo{id: 51}), "inlined map keeps its type")
				got, has := field(c, 100)
				vhAssert(has && got == val && c.extraData.Count == 1, "inlined map keeps its content")
			}
		case 4:
			c, ok := ds.elements[i].(*ArrayDataSlab)
			vhAssert(ok, "position decodes as an inlined array")
			if ok {
				// (the harness's type doubles decode 1007 as composite type 7: same encoded bytes)
				enc := uint64(0)
				switch t := c.extraData.TypeInfo.(type) {
				case vTypeInfo:
					enc = t.id
				case vCompositeTypeInfo:
					enc = t.id + 1000
				}
				vhAssert(enc == 1007, "inlined array keeps its type")
				vhAssert(len(c.elements) == 1 && vhStorableEqual(c.elements[0], vU64(val)), "inlined array keeps its content")
			}
		case 5:
			c, ok := ds.elements[i].(*MapDataSlab)
			vhAssert(ok, "position decodes as an inlined (empty) composite map")
			if ok {
				vhAssert(vhTic(c.extraData.TypeInfo, vCompositeTypeInfo{id: 7}), "empty composite map keeps its type")
				vhAssert(c.extraData.Count == 0, "empty composite map stays empty")
			}
		case 2, 3:
			c, ok := ds.elements[i].(*MapDataSlab)
			vhAssert(ok, "position decodes as an inlined composite map")
			if ok {
				vhAssert(vhTic(c.extraData.TypeInfo, vCompositeTypeInfo{id: 7}), "composite map keeps its type")
				second := uint64(101)
				if kd == 3 {
					second = 102
				}
				g1, h1 := field(c, 100)
				g2, h2 := field(c, second)
				vhAssert(h1 && g1 == val && h2 && g2 == val+1 && c.extraData.Count == 2, "composite map keeps its fields and values")
			}
		}
	}
	// encoding the decoded slab is a fixed point
	b2, err2 := EncodeSlab(s2, storage.cborEncMode)
	vhAssert(err2 == nil, "re-encode")
	if err2 == nil {
		s3, derr3 := DecodeSlab(root.SlabID(), b2, storage.cborDecMode, vhDecodeStorableB, vhDecodeTypeInfo)
		vhAssert(derr3 == nil, "re-encoded register decodes")
		if derr3 == nil {
			b3, err3 := EncodeSlab(s3, storage.cborEncMode)
			vhAssert(err3 == nil && len(b3) == len(b2), "fixed point: length")
			if err3 == nil && len(b3) == len(b2) {
				same := true
				for i := range b2 {
					same = vhAll(same, b2[i] == b3[i])
				}
				vhAssert(same, "fixed point: bytes")
			}
		}
	}
	vhReach("mixed-kinds-done")
}
