//go:build verif

package atree

// C05: map data slab split / rebalance / merge kernels for every legal slab
// size (T symbolic), elements with symbolic sizes within the inline limit and
// strictly ascending symbolic digests.

func vhMapLeaf(id SlabID, n int, tagBase uint64, prevDigest *uint64, first *bool) *MapDataSlab {
	es := newHkeyElements(0)
	for i := 0; i < n; i++ {
		d := vhU64("dig")
		if !*first {
			vhAssume(d > *prevDigest)
		}
		*first = false
		*prevDigest = d
		// element size as a whole (key + value + prefix): any size up to the inline element limit
		sz := vhRange32("esz", 3, 32768)
		vhAssume(sz <= maxInlineMapElementSize)
		ks := uint32(1)
		el := &singleElement{key: vKey{id: tagBase + uint64(i), size: ks}, value: vElem{tag: tagBase + uint64(i), size: sz - singleElementPrefixSize - ks}, size: sz}
		es.hkeys = append(es.hkeys, Digest(d))
		es.elems = append(es.elems, el)
		es.size += digestSize + sz
	}
	return &MapDataSlab{
		header:   MapSlabHeader{slabID: id, size: mapDataSlabPrefixSize + es.size, firstKey: es.firstKey()},
		elements: es,
	}
}

func vhMapLeafSize(m *MapDataSlab) uint32 {
	he := m.elements.(*hkeyElements)
	size := uint32(mapDataSlabPrefixSize + hkeyElementsPrefixSize)
	for _, e := range he.elems {
		size += digestSize + e.Size()
	}
	return size
}

func vhCheckMapLeaf(m *MapDataSlab, wantFirstTag uint64, wantCount int, what string) {
	he := m.elements.(*hkeyElements)
	vhAssert(len(he.elems) == wantCount && len(he.hkeys) == wantCount, what+": element count")
	vhAssert(m.header.size == vhMapLeafSize(m), what+": size = prefix + sum")
	vhAssert(he.size == m.header.size-mapDataSlabPrefixSize, what+": elements size agrees with header")
	if wantCount > 0 {
		vhAssert(m.header.firstKey == he.hkeys[0], what+": first key = first digest")
	}
	for i, e := range he.elems {
		se := e.(*singleElement)
		vhAssert(se.key.(vKey).id == wantFirstTag+uint64(i), what+": order")
		if i > 0 {
			vhAssert(he.hkeys[i-1] < he.hkeys[i], what+": digests strictly ascending")
		}
	}
}

//vh:prop C05
//vh:param n 6 16
func VH_C05_MapLeafSplit() {
	nmax := vhParam("n", 6)
	T := vhRange32("T", 256, 32768)
	vhSetThresholdSym(T)
	n := 2 + vhChoose("n", nmax-1)
	storage := vhNewBasicStorage()
	id, _ := storage.GenerateSlabID(vhAddr(1))
	var prev uint64
	first := true
	slab := vhMapLeaf(id, n, 0, &prev, &first)
	slab.next = vhSlabID(1, 99)
	pre := slab.header.size
	vhAssume(pre > maxThreshold)
	// reachable by one Set from a valid slab: at most one element (digest + element) above the limit
	vhAssume(pre <= maxThreshold+digestSize+maxInlineMapElementSize)
	l, r, err := slab.Split(storage)
	vhAssert(err == nil, "split: no error")
	if err != nil {
		return
	}
	left, right := l.(*MapDataSlab), r.(*MapDataSlab)
	nl := int(left.elements.Count())
	nr := int(right.elements.Count())
	vhAssert(nl >= 1 && nr >= 1, "split: both halves non-empty")
	vhAssert(nl+nr == n, "split: element count preserved")
	vhCheckMapLeaf(left, 0, nl, "split left")
	vhCheckMapLeaf(right, uint64(nl), nr, "split right")
	vhAssert(left.header.size+right.header.size == pre+mapDataSlabPrefixSize+hkeyElementsPrefixSize, "split: total size")
	vhAssert(left.header.size <= maxThreshold && right.header.size <= maxThreshold, "split: halves within max")
	vhAssert(left.header.size >= minThreshold && right.header.size >= minThreshold, "split: halves at least min")
	vhAssert(left.next == right.header.slabID && right.next == vhSlabID(1, 99), "split: sibling links")
	vhReach("map-split-done")
}

//vh:prop C05
//vh:param n 3 6
func VH_C05_MapLeafRebalance() {
	nmax := vhParam("n", 3)
	T := vhRange32("T", 256, 32768)
	vhSetThresholdSym(T)
	nl := 1 + vhChoose("nl", nmax)
	nr := 1 + vhChoose("nr", nmax)
	var prev uint64
	first := true
	left := vhMapLeaf(vhSlabID(1, 1), nl, 0, &prev, &first)
	right := vhMapLeaf(vhSlabID(1, 2), nr, uint64(nl), &prev, &first)
	left.next = right.header.slabID
	right.next = vhSlabID(1, 99)
	total := nl + nr
	totalSize := left.header.size + right.header.size
	leftUnder := vhChoose("underflow", 2) == 0
	under, other := left, right
	if !leftUnder {
		under, other = right, left
	}
	vhAssume(under.header.size < minThreshold)
	vhAssume(under.header.size+digestSize+maxInlineMapElementSize >= minThreshold)
	vhAssume(other.header.size >= minThreshold && other.header.size <= maxThreshold)
	underflowSize, isUnder := under.IsUnderflow()
	vhAssert(isUnder, "IsUnderflow agrees with the band")
	var canLend bool
	if leftUnder {
		canLend = right.CanLendToLeft(underflowSize)
	} else {
		canLend = left.CanLendToRight(underflowSize)
	}
	if canLend {
		var err error
		if leftUnder {
			err = left.BorrowFromRight(right)
		} else {
			err = left.LendToRight(right)
		}
		vhAssert(err == nil, "rebalance: no error")
		cl := int(left.elements.Count())
		cr := int(right.elements.Count())
		vhAssert(cl+cr == total, "rebalance: element count preserved")
		vhCheckMapLeaf(left, 0, cl, "rebalance left")
		vhCheckMapLeaf(right, uint64(cl), cr, "rebalance right")
		vhAssert(left.header.size+right.header.size == totalSize, "rebalance: total size preserved")
		vhAssert(left.header.size >= minThreshold && left.header.size <= maxThreshold, "rebalance: left within band")
		vhAssert(right.header.size >= minThreshold && right.header.size <= maxThreshold, "rebalance: right within band")
		vhReach("map-rebalanced")
		return
	}
	err := left.Merge(right)
	vhAssert(err == nil, "merge: no error")
	vhCheckMapLeaf(left, 0, total, "merged")
	vhAssert(left.header.size <= maxThreshold, "merge: merged leaf does not overflow")
	vhAssert(left.next == vhSlabID(1, 99), "merge: sibling link")
	vhReach("map-merged")
}
