//go:build verif

package atree

// C10: bounded histories mutating a nested array through its handle, with
// symbolic element sizes so the child crosses the inline limit by solver choice.

type vhItem struct {
	tag   uint64
	child bool
}

// vhCheckNested: parent is structurally valid (repository verifier recurses
// into nested values, checks inline status and sizes), and reading through
// the parent yields the model.
func vhCheckNested(parent *Array, addr Address, pm []vhItem, cm []uint64, childVID ValueID, what string) {
	err := VerifyArray(parent, addr, vTypeInfo{id: 42}, vhTic, vhHip, true)
	vhAssert(err == nil, what+": VerifyArray(parent)")
	vhAssert(parent.Count() == uint64(len(pm)), what+": parent count")
	if parent.Count() != uint64(len(pm)) {
		return
	}
	for i, it := range pm {
		v, err := parent.Get(uint64(i))
		vhAssert(err == nil, what+": parent Get")
		if err != nil {
			return
		}
		if !it.child {
			vhAssert(vhTagOf(v) == it.tag, what+": parent content")
			continue
		}
		c, ok := v.(*Array)
		vhAssert(ok, what+": child is an array")
		if !ok {
			return
		}
		vhAssert(c.ValueID() == childVID, what+": child value id stable")
		vhAssert(c.Count() == uint64(len(cm)), what+": child count through parent")
		if c.Count() != uint64(len(cm)) {
			return
		}
		for j, want := range cm {
			e, err := c.Get(uint64(j))
			vhAssert(err == nil, what+": child Get")
			if err != nil {
				return
			}
			vhAssert(vhTagOf(e) == want, what+": child content through parent")
		}
	}
}

//vh:prop C10 C01 C09 C06
//vh:param ops 2 3
//vh:param sib 1 2
func VH_C10_NestedArrayHistory() {
	vhSetThreshold(256)
	nops := vhParam("ops", 2)
	maxSib := vhParam("sib", 1)
	storage := vhNewBasicStorage()
	addr := vhAddr(1)
	parent, _ := NewArray(storage, addr, vTypeInfo{id: 42})
	child, _ := NewArray(storage, addr, vTypeInfo{id: 42})
	childVID := child.ValueID()
	var pm []vhItem
	var cm []uint64
	tag := uint64(1)
	// siblings before the child
	nsib := vhChoose("nsib", maxSib+1)
	for i := 0; i < nsib; i++ {
		err := parent.Append(vElem{tag: tag, size: vhRange32("sibsz", 1, 117)})
		vhAssert(err == nil, "setup: append sibling")
		pm = append(pm, vhItem{tag: tag})
		tag++
	}
	err := parent.Append(child)
	vhAssert(err == nil, "setup: append child")
	pm = append(pm, vhItem{child: true})
	// handle: the one used for insertion, or one obtained by lookup
	h := child
	if vhChoose("handle", 2) == 1 {
		v, err := parent.Get(uint64(nsib))
		vhAssert(err == nil, "setup: get child")
		h = v.(*Array)
	}
	for k := 0; k < nops; k++ {
		childIdx := 0
		for i, it := range pm {
			if it.child {
				childIdx = i
			}
		}
		op := vhChoose("op", 7)
		switch op {
		case 0: // child append
			err := h.Append(vElem{tag: tag, size: vhRange32("csz", 1, 300)})
			vhAssert(err == nil, "child append")
			cm = append(cm, tag)
			tag++
		case 1: // child remove first
			if len(cm) == 0 {
				return
			}
			s, err := h.Remove(0)
			vhAssert(err == nil, "child remove")
			if err == nil {
				vhDispose(storage, s)
			}
			cm = cm[1:]
		case 2: // child set first
			if len(cm) == 0 {
				return
			}
			s, err := h.Set(0, vElem{tag: tag, size: vhRange32("csz", 1, 300)})
			vhAssert(err == nil, "child set")
			if err == nil {
				vhDispose(storage, s)
			}
			cm[0] = tag
			tag++
		case 3: // child bulk pop
			if len(cm) == 0 {
				return
			}
			err := h.PopIterate(func(s Storable) { vhDispose(storage, s) })
			vhAssert(err == nil, "child pop")
			cm = nil
		case 4: // parent insert before the child
			err := parent.Insert(0, vElem{tag: tag, size: vhRange32("psz", 1, 117)})
			vhAssert(err == nil, "parent insert")
			pm = append([]vhItem{{tag: tag}}, pm...)
			tag++
		case 5: // parent remove first (if it is not the child)
			if childIdx == 0 {
				return
			}
			s, err := parent.Remove(0)
			vhAssert(err == nil, "parent remove")
			if err == nil {
				vhDispose(storage, s)
			}
			pm = pm[1:]
		case 6: // parent append
			err := parent.Append(vElem{tag: tag, size: vhRange32("psz", 1, 117)})
			vhAssert(err == nil, "parent append")
			pm = append(pm, vhItem{tag: tag})
			tag++
		}
		vhCheckNested(parent, addr, pm, cm, childVID, "after op")
	}
	vhAssert(vhStorageSlabCount(storage) == vhArraySlabCount(storage, parent.root.SlabID()), "no leaked or dangling slabs")
	vhReach("history-done")
}

// F2 shape: bulk pop on a parent that tracks a nested child, then in-range inserts.
//
//vh:prop C01 C10
func VH_C01_PopThenInsert() {
	vhSetThreshold(256)
	storage := vhNewBasicStorage()
	addr := vhAddr(1)
	parent, _ := NewArray(storage, addr, vTypeInfo{id: 42})
	child, _ := NewArray(storage, addr, vTypeInfo{id: 42})
	nsib := vhChoose("nsib", 3)
	for i := 0; i < nsib; i++ {
		_ = parent.Append(vElem{tag: uint64(i + 1), size: vhRange32("sibsz", 1, 117)})
	}
	_ = parent.Append(child)
	err := parent.PopIterate(func(s Storable) { vhDispose(storage, s) })
	vhAssert(err == nil, "pop")
	vhAssert(parent.Count() == 0, "pop empties")
	var model []uint64
	for k := 0; k < 2; k++ {
		t := uint64(50 + k)
		err = parent.Append(vElem{tag: t, size: vhRange32("newsz", 1, 300)})
		vhAssert(err == nil, "append after pop: in range never fails")
		model = append(model, t)
	}
	vhCheckArray(parent, addr, model, "after pop+append")
	vhReach("pop-insert-done")
}

// Two live handles to the same nested array. Known finding F4: when one
// handle's operation replaces the child's root slab object (root split,
// promotion, bulk pop), the other handle keeps the old object. The label
// distinguishes that situation from any disagreement while both handles still
// share the root object (which is a new violation): histories of appends and
// removes through either handle, sizes symbolic, so the child crosses the
// inline limit in both directions under both handles.
//
//vh:prop C10
//vh:param aliasops 3 4
//vh:param aliasinit 2 3
func VH_C10_AliasHandles() {
	vhSetThreshold(256)
	nops := vhParam("aliasops", 3)
	storage := vhNewBasicStorage()
	addr := vhAddr(1)
	parent, _ := NewArray(storage, addr, vTypeInfo{id: 42})
	child, _ := NewArray(storage, addr, vTypeInfo{id: 42})
	childVID := child.ValueID()
	var cm []uint64
	tag := uint64(10)
	ninit := vhChoose("ninit", vhParam("aliasinit", 2)+1)
	for i := 0; i < ninit; i++ {
		_ = child.Append(vElem{tag: tag, size: vhRange32("csz", 1, 117)})
		cm = append(cm, tag)
		tag++
	}
	_ = parent.Append(child)
	v1, err1 := parent.Get(0)
	v2, err2 := parent.Get(0)
	vhAssert(err1 == nil && err2 == nil, "setup: get child twice")
	hs := []*Array{v1.(*Array), v2.(*Array)}
	replaced := false
	check := func(c bool, what string) {
		if replaced {
			vhAssert(c, "alias-after-root-replacement: "+what)
		} else {
			vhAssert(c, "alias-shared-root: "+what)
		}
	}
	for k := 0; k < nops; k++ {
		h := hs[vhChoose("handle", 2)]
		if vhChoose("op", 2) == 0 {
			err := h.Append(vElem{tag: tag, size: vhRange32("csz", 1, 117)})
			check(err == nil, "append through a handle")
			if err != nil {
				return
			}
			cm = append(cm, tag)
			tag++
		} else {
			if len(cm) == 0 {
				return
			}
			s, err := h.Remove(0)
			check(err == nil, "remove through a handle")
			if err != nil {
				return
			}
			vhDispose(storage, s)
			cm = cm[1:]
		}
		if hs[0].root != hs[1].root {
			replaced = true
		}
		check(hs[0].Count() == uint64(len(cm)) && hs[1].Count() == uint64(len(cm)), "both handles see the same count")
		verr := VerifyArray(parent, addr, vTypeInfo{id: 42}, vhTic, vhHip, true)
		check(verr == nil, "parent valid after mutation through a handle")
		pv, err := parent.Get(0)
		check(err == nil, "child readable through parent")
		if err == nil {
			pc := pv.(*Array)
			check(pc.ValueID() == childVID, "child value id stable")
			check(pc.Count() == uint64(len(cm)), "mutation visible through parent")
			if pc.Count() == uint64(len(cm)) {
				for j, want := range cm {
					e, err := pc.Get(uint64(j))
					check(err == nil && vhTagOf(e) == want, "child content through parent")
				}
			}
		}
	}
	vhReach("alias-done")
}
