//go:build verif

package atree

import (
	"encoding/binary"
	"fmt"

	"github.com/fxamacker/cbor/v2"
)

// Storage-level doubles. The slab double is a real *StorableSlab holding a
// vVer (a version number): natively it goes through the real EncodeSlab /
// DecodeSlab with the real CBOR library; under the engine EncodeSlab and
// DecodeSlab are redirected to an abstract 9-byte codec (dec(enc(x)) = x,
// enc may fail on a flag) -- their real behaviour is the subject of C06/C07/C19.

type vVer struct {
	version uint64
	encFail bool
}

var _ Storable = vVer{}

func (v vVer) Encode(enc *Encoder) error {
	if v.encFail {
		return fmt.Errorf("injected encode failure")
	}
	return enc.CBOR.EncodeUint64(v.version)
}
func (v vVer) ByteSize() uint32                       { return 9 }
func (v vVer) StoredValue(SlabStorage) (Value, error) { return nil, fmt.Errorf("not a value") }
func (v vVer) ChildStorables() []Storable             { return nil }
func (v vVer) CanCopyNonRefSimple() bool              { return true }
func (v vVer) CopyNonRefSimple() (Storable, error)    { return v, nil }

func vhVerSlab(id SlabID, version uint64) *StorableSlab {
	return &StorableSlab{slabID: id, storable: vVer{version: version}}
}

func vhVersionOf(s Slab) (uint64, bool) {
	ss, ok := s.(*StorableSlab)
	if !ok {
		return 0, false
	}
	v, ok := ss.storable.(vVer)
	return v.version, ok
}

//vh:stub github.com/onflow/atree.EncodeSlab codec
func vstub_EncodeSlab(slab Slab, encMode cbor.EncMode) ([]byte, error) {
	ss, ok := slab.(*StorableSlab)
	if !ok {
		return nil, NewEncodingErrorf("abstract codec: not a slab double")
	}
	v, ok := ss.storable.(vVer)
	if !ok {
		return nil, NewEncodingErrorf("abstract codec: not a slab double")
	}
	if v.encFail {
		return nil, wrapErrorfAsExternalErrorIfNeeded(fmt.Errorf("injected encode failure"), "failed to encode storable")
	}
	b := make([]byte, 9)
	b[0] = 0x1b
	binary.BigEndian.PutUint64(b[1:], v.version)
	return b, nil
}

//vh:stub github.com/onflow/atree.DecodeSlab codec
func vstub_DecodeSlab(id SlabID, data []byte, decMode cbor.DecMode, decodeStorable StorableDecoder, decodeTypeInfo TypeInfoDecoder) (Slab, error) {
	if len(data) != 9 {
		return nil, NewDecodingErrorf("abstract codec: bad length")
	}
	return vhVerSlab(id, binary.BigEndian.Uint64(data[1:])), nil
}

func vhDecodeVer(dec *cbor.StreamDecoder, id SlabID, _ []ExtraData) (Storable, error) {
	v, err := dec.DecodeUint64()
	if err != nil {
		return nil, err
	}
	return vVer{version: v}, nil
}

func vhDecodeTypeInfo(dec *cbor.StreamDecoder) (TypeInfo, error) {
	v, err := dec.DecodeUint64()
	if err != nil {
		return nil, err
	}
	if v >= 1000 {
		return vCompositeTypeInfo{id: v - 1000}, nil
	}
	return vTypeInfo{id: v}, nil
}

// vhBytesVersion reads the version out of a register written by either codec.
func vhBytesVersion(b []byte) uint64 {
	if vhSymbolic() {
		return binary.BigEndian.Uint64(b[1:])
	}
	// native: real encoding = 2-byte head + CBOR uint
	dm, _ := cbor.DecOptions{}.DecMode()
	dec := dm.NewByteStreamDecoder(b[versionAndFlagSize:])
	v, _ := dec.DecodeUint64()
	return v
}

// vhRegister produces the register bytes for a version (used to preload vBase).
func vhRegister(id SlabID, version uint64) []byte {
	b, err := EncodeSlab(vhVerSlab(id, version), vhEncMode())
	if err != nil {
		panic(err)
	}
	return b
}

func vhEncMode() cbor.EncMode {
	if vhSymbolic() {
		return nil
	}
	em, _ := cbor.EncOptions{}.EncMode()
	return em
}

func vhDecMode() cbor.DecMode {
	if vhSymbolic() {
		return nil
	}
	dm, _ := cbor.DecOptions{}.DecMode()
	return dm
}

// vBase is the ledger double: registers in a map, an ordered call log and a
// fault bit per write/delete call.
type vBaseCall struct {
	op byte // 'S' store, 'D' delete (remove)
	id SlabID
}

type vBase struct {
	regs      map[SlabID][]byte
	log       []vBaseCall
	faults    map[SlabID]bool // the Store/Remove call for this identifier fails (this attempt)
	ncalls    int
	nfailed   int
	nextIndex map[Address]uint64
	retrFail  int // fail the k-th Retrieve (1-based), 0 = never
	nretr     int
}

var _ BaseStorage = &vBase{}

func newVBase() *vBase {
	return &vBase{regs: map[SlabID][]byte{}, nextIndex: map[Address]uint64{}}
}

func (b *vBase) fault(id SlabID) bool {
	b.ncalls++
	if f, ok := b.faults[id]; ok && f {
		b.nfailed++
		return true
	}
	return false
}

func (b *vBase) Store(id SlabID, data []byte) error {
	if b.fault(id) {
		return fmt.Errorf("injected ledger write failure")
	}
	b.log = append(b.log, vBaseCall{'S', id})
	b.regs[id] = append([]byte(nil), data...)
	return nil
}

func (b *vBase) Retrieve(id SlabID) ([]byte, bool, error) {
	b.nretr++
	if b.retrFail != 0 && b.nretr == b.retrFail {
		return nil, false, fmt.Errorf("injected ledger read failure")
	}
	d, ok := b.regs[id]
	return d, ok, nil
}

func (b *vBase) Remove(id SlabID) error {
	if b.fault(id) {
		return fmt.Errorf("injected ledger delete failure")
	}
	b.log = append(b.log, vBaseCall{'D', id})
	delete(b.regs, id)
	return nil
}

func (b *vBase) GenerateSlabID(a Address) (SlabID, error) {
	b.nextIndex[a]++
	var idx SlabIndex
	binary.BigEndian.PutUint64(idx[:], 1000+b.nextIndex[a])
	return NewSlabID(a, idx), nil
}

func (b *vBase) SegmentCounts() int   { return len(b.regs) }
func (b *vBase) Size() int            { return 0 }
func (b *vBase) BytesRetrieved() int  { return 0 }
func (b *vBase) BytesStored() int     { return 0 }
func (b *vBase) SegmentsReturned() int { return 0 }
func (b *vBase) SegmentsUpdated() int  { return 0 }
func (b *vBase) SegmentsTouched() int  { return 0 }
func (b *vBase) ResetReporter()        {}

func vhNewPersistent(base BaseStorage) *PersistentSlabStorage {
	return NewPersistentSlabStorage(base, vhEncMode(), vhDecMode(), vhDecodeVer, vhDecodeTypeInfo)
}
