#!/bin/bash
# boundary-comparison mutants on size/limit checks
. /verif/env.sh

WT=/tmp/mcwt2
rm -rf $WT; git -C /repo worktree prune; git -C /repo worktree add -q --detach $WT HEAD || exit 1
cd $WT
grep -n "Threshold\|maxInline\|MaxInline" *.go | grep -v "_test.go\|_verify.go\|^settings.go" | grep -E " [<>]=? " | grep -v "^\S*:[0-9]*:\s*//" | awk -F: '{print $1":"$2}' > /tmp/mc2_sites.txt
n=0
while read site; do
  f=${site%%:*}; l=${site##*:}
  n=$((n+1))
  git checkout -q -- .
  line=$(sed -n "${l}p" $f)
  if echo "$line" | grep -q " >= "; then sed -i "${l}s/ >= / > /" $f
  elif echo "$line" | grep -q " > "; then sed -i "${l}s/ > / >= /" $f
  elif echo "$line" | grep -q " <= "; then sed -i "${l}s/ <= / < /" $f
  elif echo "$line" | grep -q " < "; then sed -i "${l}s/ < / <= /" $f
  else continue; fi
  if ! go build ./... 2>/dev/null; then echo "B$n $site BUILD-FAIL"; continue; fi
  case $f in
    array*) RUN='VH_C01_ArrayStep$|VH_C01_DeepArrayStep|VH_C10_NestedKinds|VH_C05_Array|VH_C17_ArrayBatch|VH_C17_Bytes|VH_C07_ArrayBytes|VH_C07_ManyTypeInfos' ;;
    map*) RUN='VH_C02_MapStep$|VH_C02_DeepMapStep|VH_C12_GroupStep|VH_C10_NestedKinds|VH_C05_Map|VH_C17_MapBatch|VH_C07_MapBytes|VH_C07_CompactMapBytes' ;;
    *) RUN='VH_C01_ArrayStep$|VH_C02_MapStep$|VH_C10_NestedKinds' ;;
  esac
  out=$(cd /verif && nice -n 15 bin/vsym -repo $WT -harness /verif/harness -budget 90 -run "$RUN" 2>&1 | grep -E "^  VIOLATION" | grep -v alias-stale | sed 's/^  VIOLATION x[0-9]*: //' | sort | uniq -c | sort -rn | head -2 | tr '\n' ';')
  echo "B$n $site [$(echo $line | tr -s ' \t' ' ')] -> [$(sed -n "${l}p" $f | tr -s ' \t' ' ')] => ${out:-SURVIVED}"
done < /tmp/mc2_sites.txt
git -C /repo worktree remove --force $WT
