#!/bin/bash
# storeSlab-deletion mutants: which harness notices a missing Store?
. /verif/env.sh
WT=/tmp/mcwt
rm -rf $WT; git -C /repo worktree prune; git -C /repo worktree add -q --detach $WT HEAD || exit 1
cat > $WT/zz_nostore.go <<'EOG'
package atree

func noStoreSlab(SlabStorage, Slab) error { return nil }
EOG
cd $WT
grep -n "storeSlab(" *.go | grep -v "_test.go\|func storeSlab\|zz_nostore" | awk -F: '{print $1":"$2}' > /tmp/mc_sites.txt
n=0
while read site; do
  f=${site%%:*}; l=${site##*:}
  n=$((n+1))
  [ $n -le ${SKIP:-0} ] && continue
  git checkout -q -- . 
  sed -i "${l}s/storeSlab(/noStoreSlab(/" $f
  if ! go build ./... 2>/dev/null; then echo "M$n $site BUILD-FAIL"; continue; fi
  case $f in
    array*) RUN='VH_C01_ArrayStep$|VH_C01_DeepArrayStep|VH_C10_NestedKinds|VH_C10_NestedArrayHistory|VH_C17_ArrayBatch|VH_C17_Bytes|VH_C13_ArrayIterators|VH_C01_FreshContainers|VH_C17_ArrayCopy|VH_C11_DetachedArray' ;;
    map*) RUN='VH_C02_MapStep$|VH_C02_DeepMapStep|VH_C12_GroupStep|VH_C10_NestedKinds|VH_C17_MapBatch|VH_C13_GroupIterators|VH_C13_MapIterators|VH_C01_FreshContainers|VH_C17_MapCopy|VH_C11_DetachedFromMap' ;;
    *) RUN='VH_C01_ArrayStep$|VH_C02_MapStep$|VH_C10_NestedKinds|VH_C15_StorageStep$|VH_C07_ArrayBytes' ;;
  esac
  out=$(cd /verif && nice -n 15 bin/vsym -repo $WT -harness /verif/harness -budget 90 -run "$RUN" 2>&1 | grep -E "^  VIOLATION" | grep -v alias-stale | sed 's/^  VIOLATION x[0-9]*: //' | sort | uniq -c | sort -rn | head -2 | tr '\n' ';')
  ctx=$(sed -n "${l}p" $f | tr -s ' \t' ' ')
  fn=$(awk -v L=$l 'NR<=L && /^func /{x=$0} END{print x}' $f | cut -c1-70)
  echo "M$n $site {$fn} [$ctx] => ${out:-SURVIVED}"
done < /tmp/mc_sites.txt
git -C /repo worktree remove --force $WT
