#!/bin/bash
# storage.Remove-deletion mutants: which harness notices a leaked slab / register?
. /verif/env.sh

WT=/tmp/mcwt3
rm -rf $WT; git -C /repo worktree prune; git -C /repo worktree add -q --detach $WT HEAD || exit 1
cat > $WT/zz_noremove.go <<'EOG'
package atree

type vRemover interface{ Remove(SlabID) error }

func noRemove(_ vRemover, _ SlabID) error { return nil }
EOG
cd $WT
grep -n "[sS]torage.Remove(" *.go | grep -v "_test.go\|zz_noremove" | awk -F: '{print $1":"$2}' > /tmp/mc3_sites.txt
n=0
while read site; do
  f=${site%%:*}; l=${site##*:}
  n=$((n+1))
  git checkout -q -- .
  sed -i -E "${l}s/([A-Za-z_.]*[sS]torage)\.Remove\(/noRemove(\1, /" $f
  if ! go build ./... 2>/dev/null; then echo "R$n $site BUILD-FAIL"; continue; fi
  case $f in
    array*) RUN='VH_C01_ArrayStep$|VH_C01_DeepArrayStep|VH_C10_NestedKinds|VH_C10_NestedArrayHistory|VH_C13_ArrayIterators|VH_C13_DeepArrayIterators|VH_C11_DetachedArray' ;;
    map*) RUN='VH_C02_MapStep$|VH_C02_DeepMapStep|VH_C12_GroupStep|VH_C12_CollisionHistory|VH_C10_NestedKinds|VH_C13_GroupIterators|VH_C13_MapIterators|VH_C13_DeepMapIterators' ;;
    *) RUN='VH_C15_StorageStep$|VH_C15_FaultyCommitStep|VH_C14_CommitFaults|VH_C04_CommitOrder|VH_C16_ParallelCommit' ;;
  esac
  out=$(cd /verif && nice -n 15 bin/vsym -repo $WT -harness /verif/harness -budget 90 -run "$RUN" 2>&1 | grep -E "^  VIOLATION" | grep -v alias-stale | sed 's/^  VIOLATION x[0-9]*: //' | sort | uniq -c | sort -rn | head -2 | tr '\n' ';')
  fn=$(awk -v L=$l 'NR<=L && /^func /{x=$0} END{print x}' $f | cut -c1-70)
  echo "R$n $site {$fn} [$(sed -n "${l}p" $f | tr -s ' \t' ' ')] => ${out:-SURVIVED}"
done < /tmp/mc3_sites.txt
git -C /repo worktree remove --force $WT
