#!/usr/bin/env python3
"""Regenerates MANIFEST.json from the table below (single source of truth)."""
import json

TECH = "bounded symbolic execution of the real Go code (go/ssa of /repo, rebuilt each run) with per-path SMT queries (z3 5.1, Int encoding with mod-2^w wrap); counterexamples replayed natively"
BASE_NOTE = ("Trusted base: the vsym interpreter's go/ssa semantics (cross-checked on sampled paths against the native build each run), "
             "z3 5.1; fmt/reflect.TypeOf opaque, sync.Pool as LIFO free list, append growth without size classes; caller-supplied "
             "components are harness doubles obeying their documented contracts. Verdicts are 'unsat within the stated bound', not proofs. ")

CHECKS = {
 "C01": dict(
   text="One inductive step of every array operation (Get/Set/Insert/Append/Remove) from ANY array tree satisfying the representation invariant within the shape bound, element sizes symbolic: results equal the slice model, in-range requests never fail, VerifyArray + content + reopen-by-root-id hold afterwards, storage holds exactly the reachable slabs. The solver decides all size mixes at once; indices and shapes are forked.",
   note="Bounds: slab size T=256; root leaf with 0..3 (quick) / 0..5 (thorough) elements or root index slab over 2 (quick) / 2..3 (thorough) leaves of 2..3 / 2..5 elements; new element size 1..65536 (externalised through the real NewStorableSlab when above the inline limit). Outside: deeper trees, nested containers (see C10), other T.",
   ref="6/C01"),
 "C05": dict(
   text="Split arithmetic of array data slabs for every legal slab size (T symbolic 256..32768) and every element-size mix within the inline limit: both halves inside [min,max], non-empty, sizes/counts/order/next-chain consistent; plus the tree invariant (VerifyArray) after every step of the C01 harness.",
   note="Bounds: leaves of 2..8 (quick) / 2..24 (thorough) elements for the split kernel; tree-level invariant as C01. Outside: larger leaves, map slabs (being added).",
   ref="6/C05"),
}

NOT_YET = "check under construction in this session (engine exists; harness not yet registered)"

def main():
    props = [json.loads(l)["id"] for l in open("properties.jsonl")]
    checks = []
    for p in props:
        if p not in CHECKS:
            continue
        c = CHECKS[p]
        checks.append({
            "property_id": p,
            "quick_cmd": f"./check {p} quick",
            "thorough_cmd": f"./check {p} thorough",
            "evidence_file": f"/verif/evidence/{p}.json",
            "replay_cmd_template": "./check replay {path}",
            "engine": "vsym",
            "level_claimed": {"category": "model_checking", "text": c["text"], "design_ref": "DESIGN.md §" + c["ref"]},
            "level_note": BASE_NOTE + c["note"],
            "technique": TECH,
        })
    m = {
        "version": 1,
        "setup_cmd": "cd /verif && ./setup.sh",
        "hooks": {
            "guard": "verif",
            "enable": "harness files under /verif/harness carry //go:build verif and are injected into package atree by build overlay (go/packages Overlay for the engine, go test -overlay for native replay); nothing is added to /repo",
            "baseline_off_cmd": "cd /repo && PATH=/root/go/pkg/mod/golang.org/toolchain@v0.0.1-go1.24.0.linux-amd64/bin:$PATH GOTOOLCHAIN=local GOFLAGS=-mod=mod GOPROXY=off go test -vet=off -count=1 -timeout 25m ./...",
            "source_commits": [],
            "add_only": True,
        },
        "engines": [{"name": "vsym", "path": "/verif/engine", "serves_properties": sorted(CHECKS),
                     "kind_free_text": "bounded symbolic executor for go/ssa (executes the real atree functions), forks per path, SMT (z3 5.1 / cvc5) decides branch feasibility and assertions; native replay of models"}],
        "checks": checks,
        "not_applicable": [{"property_id": p, "reason": NOT_YET} for p in props if p not in CHECKS],
        "notes": "See DESIGN.md. Exit codes: 0 = held on everything explored; 1 = VIOLATION (replayed natively); 2 = machinery broken/inconclusive (never a violation claim).",
    }
    json.dump(m, open("MANIFEST.json", "w"), indent=1)

if __name__ == "__main__":
    main()
