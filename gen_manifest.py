#!/usr/bin/env python3
"""Regenerates MANIFEST.json from the table below (single source of truth)."""
import json

TECH = "bounded symbolic execution of the real Go code (go/ssa of /repo, rebuilt each run) with per-path SMT queries (z3 5.1, Int encoding with mod-2^w wrap); counterexamples replayed natively"
BASE_NOTE = ("Trusted base: the vsym interpreter's go/ssa semantics (cross-checked on sampled paths against the native build each run), "
             "z3 5.1; fmt/reflect.TypeOf opaque, sync.Pool as LIFO free list, append growth without size classes; caller-supplied "
             "components are harness doubles obeying their documented contracts. Verdicts are 'unsat within the stated bound', not proofs. ")

CHECKS = {
 "C01": dict(
   text="One inductive step of every array operation (Get/Set/Insert/Append/Remove) from ANY array tree satisfying the representation invariant within the shape bound, element sizes symbolic: results equal the slice model, in-range requests never fail, VerifyArray + content + reopen-by-root-id hold afterwards, storage holds exactly the reachable slabs. The solver decides all size mixes at once; indices and shapes are forked. Any 64-bit out-of-range index on Get/Set/Insert/Remove fails with index-out-of-bounds and changes nothing; the slab size T is symbolic over 256..32768 in the step harness.",
   note="Bounds: slab size T=256; root leaf with 0..3 (quick) / 0..5 (thorough) elements or root index slab over 2 (quick) / 2..3 (thorough) leaves of 2..3 / 2..5 elements; new element size 1..65536 (externalised through the real NewStorableSlab when above the inline limit). Outside: deeper trees, nested containers (see C10), other T.",
   ref="6/C01"),
 "C02": dict(
   text="One inductive step of every map operation (Get/Has of absent keys, Set new, Set existing, Remove present, Remove absent) from ANY map of single elements satisfying the representation invariant within the shape bound; all four digest levels of every key and all key/value sizes are symbolic, so one verdict covers every hash distribution: results equal the dictionary model, key-not-found exactly for absent keys, VerifyMap (which re-hashes every key) + content + reopen-by-root-id hold afterwards. A second step harness starts from states holding a collision group of 3 keys (inline group, external group slab, or last-level list of fully colliding keys) next to single elements, with operations on members and non-members; a pool harness shows that a recycled digester carries no state.",
   note="Bounds: T=256; root leaf with 0..3 (quick) / 0..4 (thorough) keys or root index slab over 2 / 2..3 leaves of 2..3 / 2..4 keys; new value size 1..65536. Pre-states hold single elements only; collision groups are reached through C12's API-built histories. Outside: deeper trees, nested containers as values.",
   ref="6/C02"),
 "C06": dict(
   text="Incremental-size half of the property: after every step of the C01/C02 step harnesses and every operation of the C10 nested histories (element sizes symbolic, so every size mix), each slab's cached size equals the size recomputed from scratch (prefix by kind root/non-root/inlined + element sizes + digests), at every nesting level, including the prefix swaps on root split / promotion and inline<->standalone transitions; the recomputation is the repository's verifier executed symbolically, every 'size is wrong' branch must be infeasible.",
   note="Bounds as C01, C02, C10, C12 group step (incl. last-level collision lists). Byte-level half: the C07 byte harnesses run the real encoders over the REAL fxamacker/cbor stream encoder (its SSA is executed, no CBOR model) and assert encoded length minus extra-data sections == reported size (+16 for an omitted sibling link) and decoded size == in-memory size, for arrays/maps of up to 2 (quick) / 3 (thorough) elements whose CBOR widths are chosen by symbolic values, with wrapped values, large-value references, inlined arrays, inline and external collision groups. Outside: compact-map hoisting (only 'bytes <= size' would apply), larger slabs.",
   ref="6/C06"),
 "C07": dict(
   text="The real slab encoders and decoders executed over the REAL CBOR library (fxamacker/cbor's stream encoder/decoder SSA is interpreted symbolically; no model): for arrays and maps built through the public API whose element values are symbolic (so every CBOR head width 1/2/3/5/9 is chosen by the solver), with wrapped values, large values stored as references, keys too large to inline, inlined child arrays (nested), inline and external collision groups and multi-slab trees: encode -> decode -> encode is byte-identical, the decoded slab is field-equal (header incl. size/count, next, inlined status, extra data, elements), and the raw-byte flags (root / has-pointers / size-limit) are truthful for every slab in storage. Index slabs additionally: EVERY byte string of up to 40 (quick) / 66 (thorough) bytes with an index-slab head that decodes re-encodes to itself (fully symbolic buffer, bit-vector rendering).",
   note="Bounds: T=256; up to 2/3 top-level elements, nesting depth 1/2, 2/3 map keys over 2 or 4 digest levels. The repository's own VerifyArraySerialization/VerifyMapSerialization are part of the oracle (executed symbolically) next to harness assertions for flags. Outside: compact (same-typed composite) inlined maps, inlined maps as array elements, version-0 data slabs.",
   ref="6/C07"),
 "C08": dict(
   text="(1) Reload relation on every field operations read: the decoded slab of every C07 scenario is field-equal to the in-memory one (cached sizes at every nesting level, counts, first keys, next, inlined status). (2) Differential run with the real codec over two ledgers: the same build + operation (append / set / remove / mutate nested child, values symbolic) executed warm and under a symbolic schedule of {commit; commit+drop cache; commit+reopen from ledger}: same counts, both valid, and byte-identical final registers. Compact (same-typed composite) inlined maps: with the real hash functions linked into the engine, a parent holding 2 (quick) / 3 (thorough) compact child maps is run warm and after commit+drop/reopen; removing/overwriting/adding a field of one child yields identical field sets and values in every child in both runs.",
   note="Bounds: arrays of 1..2 scalars (+ optional inlined child, + optional 4 large elements to span several slabs); one canonical goroutine schedule for the commits (interleavings are C16's subject). Outside: maps in the differential run, longer schedules (the reduction 'overlay + dirty marks + reload equality' is C15/C03/C07).",
   ref="6/C08"),
 "C09": dict(
   text="After every step of the C01/C02 step harnesses and every history of the C10 harness (with returned storables disposed of), the set of slabs in storage equals the set reachable from the root: counted by an independent walk over index-slab children, slab references (incl. wrapped), inlined containers and large-value slabs; a dangling reference fails the walk.",
   note="Bounds: as C01, C02, C10. Outside: external collision groups and bulk pop of multi-slab containers (being added).",
   ref="6/C09"),
 "C10": dict(
   text="All histories of up to 2 (quick) / 3 (thorough) operations {child append/remove/set/bulk-pop, parent insert-before/remove-before/append} on a nested array reached through a live handle (the insertion handle or one obtained by lookup), child element sizes symbolic so the child crosses the inline limit in both directions by solver choice: after every operation the parent passes VerifyArray (recursing into the child, checking inline status and sizes), reading through the parent equals the model and the child's value id is unchanged. A second harness keeps two live handles and reports the recorded known finding (stale handle after root replacement) separately from any disagreement while both handles share the root.",
   note="Bounds: T=256, nesting depth 2 (array in array), 0..1 (quick) / 0..2 (thorough) siblings. Outside: maps as parent/child (being added), depth 3, wrapped children.",
   ref="6/C10"),
 "C11": dict(
   text="All histories of 2 (quick) / 3 (thorough) operations after a nested array (inlined or standalone by solver-chosen sizes) was detached from its parent by Remove or by overwrite, using a stale handle (the attached one or one obtained by lookup): stale append / remove / bulk pop, parent mutations in between, and a new child placed at the old position followed by a stale mutation. After every operation the former parent passes VerifyArray with unchanged content and size bookkeeping; the detached child keeps its value id, is standalone, reloadable by identifier with the expected content, and can be re-attached to a new parent and mutated through the same handle. A second harness uses a MAP as the former parent: the child is detached by removing its key or overwriting it with a plain value or another container (inlined or standalone); after every stale mutation the parent's size, validity, the replacement under the key and the sibling entry are unchanged.",
   note="Bounds: T=256, child with 0..2 elements at detachment, 0..1 siblings on each side. Outside: maps as parent/child, wrapped children, bulk-pop of the parent followed by a stale handle.",
   ref="6/C11"),
 "C12": dict(
   text="All insert histories of 2 (quick) / 3 (thorough) keys through the public API followed by 2 / 1 further operations (update, remove, absent lookup) with EVERY assignment of digests over 1, 2 or 4 levels symbolic and the collision limit symbolic in 0..255: dictionary semantics and VerifyMap after every operation; an insert is refused with CollisionLimitError exactly when the first-level digest is already shared by more than the limit of entries with distinct second-level digests, leaving the map unchanged; updates are always accepted.",
   note="Bounds: T=256, value sizes 1..300, keys within the inline key limit. Outside: more keys per group (limits above the number of keys behave as 'never reached'), external collision groups larger than the bound.",
   ref="6/C12"),
 "C03": dict(
   text="Storage half of the property, decided on the real PersistentSlabStorage over a ledger double: from ANY coherent (write set, cache, ledger) state over the identifier universe, no API call other than the two commits issues a ledger write or delete; a commit never writes a temporary-address slab; after a fault-free commit a brand-new storage over the same ledger shows exactly the pre-commit view for every owned identifier (so abandoning the in-memory storage at any point leaves the last commit). Dirty-mark completeness of container operations is asserted by the C10 nested-history harness through VerifyArray on the parent (stale parent detection); byte-level reload equality is C07/C08's subject. Dirty-mark completeness: in the C01/C02 step harnesses every slab whose content signature changed and every new slab must have been passed to Store by the operation (so the next commit persists it). A warm-vs-{commit, drop cache, reopen} differential with the real codec is shared with C08.",
   note="Bounds: 3 (quick) / 4 (thorough) identifiers incl. one temporary, every combination of {absent, pending delete, pending version} x {nothing, ledger only, cached delete, cached+ledger}, versions symbolic; commits with 1 (quick) / 1..2 (thorough) workers as modelled goroutines. EncodeSlab/DecodeSlab are replaced by an abstract 9-byte codec inside the engine (native replay uses the real codec). Outside: the composition argument 'step + dirty marks + reload equality => every history' is manual.",
   ref="6/C03"),
 "C04": dict(
   text="Both commits on the real storage with modelled goroutines, ALL Go map iteration orders of the write set explored (range over map forks over every remaining entry) and all sync-level interleavings of the encoder workers (up to partial-order equivalence): the deterministic commit issues exactly one ledger call per owned pending entry in strictly ascending (owner, index) order; the relaxed commit issues the same set in some order; the resulting registers depend only on the write set. Pool reuse is transparent: whatever state a digester / encode buffer / type-id buffer is in when returned, the next Get behaves like a fresh object (LIFO pool model = worst case); the real encoders return every pooled buffer exactly once, also on element-encode errors.",
   note="Bounds: 3 pending entries over 2 owners (+ optional temporary one), 1 (quick) / 1..2 (thorough) workers. Outside: pool reuse and encoder-internal map ranges (need the byte-level encoders, see C06/C07 stage), fresh-process effects.",
   ref="6/C04"),
 "C13": dict(
   text="On every array/map shape of the step harnesses: mutable, read-only, range (all valid bounds), keys-only, values-only and loaded-value iteration each yield exactly the model sequence (arrays in index order, maps in ascending digest order); loaded-value iteration with EVERY subset of leaves reported as not loaded yields exactly the in-order subsequence of loaded leaves; overwriting the current element at any position during mutable iteration with a value of symbolic size (which may split the leaf under the cursor) neither skips nor repeats; bulk pop yields reverse order, leaves a valid empty container and releases every auxiliary slab. Fully colliding keys (last-level list) enumerate in insertion order after every group-step operation.",
   note="Bounds: as C01/C02 shapes (T=256). Outside: collision groups spanning slabs, mutation of nested children during iteration and the read-only-iterator mutation error (being added), invalid ranges (asserted under C18).",
   ref="6/C13"),
 "C14": dict(
   text="Symbolic fault schedule: every ledger write/delete of a commit fails or not by a symbolic bit, for both commits, then the commit is retried with fresh symbolic faults until a fault-free attempt: a failed call makes the commit return an ExternalError; after every attempt each owned entry is either written (left the write set, register = latest, cache updated) or still pending with its register untouched; reads keep returning the latest values; the fault-free retry leaves registers equal to the single fault-free commit and the owned write set empty; temporary entries stay pending and unwritten.",
   note="Bounds: 2 (quick) / 3 (thorough) pending entries (stores/deletes, optional temporary), 1 / 1..2 workers as modelled goroutines, 1 / 2 faulty attempts before the fault-free one. Outside: encode errors here (covered in C16), more entries/workers.",
   ref="6/C14"),
 "C15": dict(
   text="One inductive step of every storage API call (Store, Remove, RetrieveIfLoaded, RetrieveIgnoringDeltas with/without cache fill, undefined-id rejection, both commits, drop write set+cache, sequential BatchPreload) from ANY coherent (write set, cache, ledger) state: afterwards Retrieve shows the pure overlay model's view for every identifier (most recent store/remove, else committed), commits make the ledger equal the view on owned ids and empty the owned write set, drops revert to the last commit, preload and cache-bypassing reads leave the view unchanged; Deltas / DeltasWithoutTempAddresses agree with the model. The coherence invariant is re-established, so the step is inductive.",
   note="Bounds and stubs as C03. Outside: BatchPreload's parallel path (>=11 ids), DeltasSizeWithoutTempAddresses/HasUnsavedChanges (being added). Quick: 3 owned identifiers over two owners plus a separate run with 1 owned + 1 temporary identifier; thorough: 3 owned, and 2 owned + temporary.",
   ref="6/C15"),
 "C16": dict(
   text="FastCommit and NondeterministicFastCommit with 2 workers as modelled goroutines: every sync-level interleaving (up to partial-order equivalence) of workers and committer is explored with a vector-clock happens-before detector on every heap and map access; a data race, deadlock, send on closed channel or panic in a worker is a violation (races are confirmed natively with the Go race detector before being reported). The parallel result (registers, write set, cache, error) equals the sequential overlay model, with symbolic encode failures per slab. Pool discipline of the real encoders over the real CBOR library: after encoding an array, a map or an array with an inlined child -- successfully or with the first or second element failing -- two consecutive Gets from each process-wide pool return distinct objects (no buffer was returned twice). Independent clients: two modelled goroutines, each with its own storage and containers, encode through the real encoders and the real CBOR library concurrently (optionally after an unrelated client's failing encode); the process-wide pools are scheduling points with Put->Get happens-before, all interleavings are explored: each client gets exactly the bytes it gets alone and no data race is seen on pooled buffers or package-level settings. Parallel BatchPreload (11..12 identifiers, 2..3 workers, missing register, pending change, failing read) on one canonical schedule with the happens-before detector: cache and view equal the sequential path.",
   note="Bounds: 2 (quick) / 3 (thorough) pending entries, 2 workers; scheduling points at channel send/receive, blocking select and WaitGroup.Wait (close, non-blocking select and Done are ordered with their goroutine's neighbouring points). EncodeSlab is the abstract codec, so races inside the real encoders/pools are not seen here. Outside: interleavings of the parallel BatchPreload beyond the canonical one, more than two concurrent clients, GOMAXPROCS/real-scheduler effects.",
   ref="6/C16"),
 "C17": dict(
   text="NewArrayFromBatchData on every stream of 0..7 (quick) / 0..10 (thorough) elements of symbolic size (incl. larger than the inline limit): result passes VerifyArray, equals the stream, leaks nothing and accepts a further operation; NewMapFromBatchData on 0..3 / 0..4 keys with all digests symbolic: unsorted first-level digests are rejected with HashError, otherwise VerifyMap, content, given seed, and source order (without first-level collisions); CopyNonRefSimple is offered exactly for single-slab arrays whose elements are all plain (symbolic mix of plain, wrapped, large-value reference and nested array), then succeeds with a valid, equal, fresh-id copy that is independent of the source under mutation of either; byte slice <-> byte array round-trips for symbolic bytes and symbolic size estimate (both build paths), rejecting foreign elements as a caller mistake. Map copy: offered for single-slab maps of plain values, yields a valid equal map with a fresh identifier that stays independent of the source under remove / insert (any digest) / update applied to either.",
   note="Bounds: T=256; lengths as stated (so multi-level index tails only up to what 10 elements produce). Outside: tens of thousands of elements, map copy, underfull last index slab at higher levels.",
   ref="6/C17"),
 "C18": dict(
   text="Array Get/Set/Remove with ANY index >= count and Insert with any index > count (64-bit symbolic), range iterators with any out-of-range or inverted bounds, map Get/Remove of an absent key with arbitrary digests (below all, between, equal to an existing digest), insert at collision limit 0, and reopening an undefined identifier: each returns the specific error type under the documented category (UserError for caller mistakes, FatalError for limit/internal), issues no Store/Remove on the storage, and leaves every slab header and the content unchanged (VerifyArray/VerifyMap + model). A failure injected into the comparator, the hash-input provider or the storage read during a lookup is reported as ExternalError.",
   note="Bounds: shapes as C01/C02 (T=256). 'Pending write set unchanged' is observed as 'no Store/Remove call reached the storage' on a logging wrapper around BasicSlabStorage.",
   ref="6/C18"),
 "C19": dict(
   text="(a) Fully symbolic buffers of every length 0..40 (quick) / 0..66 (thorough): the three raw header queries, NewSlabIDFromRawBytes and DecodeSlab for index-slab heads (array and map, version 0 and 1) never panic, loop or allocate more than the input length (engine-enforced allocation bound at every make), and decoded slabs' ByteSize/ChildStorables are panic-free. (b) Valid registers of every CBOR-bearing slab kind (array root/non-root data slabs with scalars, wrapped values, references, inlined child; index slabs; map data slabs with inline group, external collision slab, inlined child map; storable slab) under EVERY single-byte substitution (symbolic value, every position) and every truncation, decoded by the real decoders over the real CBOR library: no panic, bounded allocation. (c) The inlined array / compact-map decoders with symbolic semantic fields (any extra-data index, any recorded count, any element count, any extra-data list) over well-formed CBOR produced by the real encoder.",
   note="Bounds as stated; panics found by the engine are replayed natively through the real DecodeSlab. Outside: multi-byte edits of CBOR-bearing registers other than the structured fields of (c), version-0 data slabs, the caller's StorableDecoder (a harness double).",
   ref="6/C19"),
 "C20": dict(
   text="CheckStorageHealth on every valid forest of slab doubles within the bound (accepted, true root set returned, wrong expected root count rejected) and on every single corruption of the four kinds the property names (deleted referenced slab, extra unreferenced slab, slab referenced from two places, cross-owner reference), each applied at every position: rejected.",
   note="Bounds: 3 (quick) / 5 (thorough) slabs, every parent assignment, one reference optionally nested in a non-reference wrapper, expected root count symbolic in -1..n+1. Outside: larger graphs; cyclic graphs (not produced by valid histories or the named corruptions; the engine observed that CheckStorageHealth does not terminate on some cycles, recorded in DESIGN.md as an observation outside C20).",
   ref="6/C20"),
 "C05": dict(
   text="Split arithmetic of array data slabs for every legal slab size (T symbolic 256..32768) and every element-size mix within the inline limit: both halves inside [min,max], non-empty, sizes/counts/order/next-chain consistent; plus the tree invariant (VerifyArray) after every step of the C01 harness. Rebalance/merge kernel: two sibling leaves of 1..4 (quick) / 1..8 (thorough) elements, one underflowing by at most one element, T symbolic: if the real CanLend* says yes the real LendToRight/BorrowFromRight leaves both inside the band, otherwise the real Merge does not overflow; sizes, counts, order and next-chain preserved. Batch builds and collision-group steps are checked with VerifyArray/VerifyMap too. Map data slabs: the same split and rebalance/merge kernels with ascending symbolic digests (first keys, digest order and element order preserved). Array and map index slabs: split after overflowing by one child header and rebalance/merge after losing one, with 1..12 (quick) / 1..24 (thorough) children per slab and symbolic child counts: cumulative count index rebuilt exactly, both slabs inside the band or the merged slab not overflowing. The float computations in the index slabs (ceil(size/14), ceil(size/18), ceil(c/2)) are summarised as integer formulas in those runs; a lemma harness discharges the equalities with exact IEEE-754 semantics (bit-vector + FloatingPoint rendering) for all sizes below 2^11 (quick) / 2^16 (thorough).",
   note="Bounds: leaves of 2..8 (quick) / 2..24 (thorough) elements for the split kernel; tree-level invariant as C01. Outside: larger leaves, setThreshold's own float path (the harnesses set the derived limits with integer formulas).",
   ref="6/C05"),
}

NOT_YET = "check under construction in this session (engine exists; harness not yet registered)"

def main():
    props = [json.loads(l)["id"] for l in open("properties.jsonl")]
    checks = []
    for p in props:
        if p not in CHECKS:
            continue
        c = CHECKS[p]
        checks.append({
            "property_id": p,
            "quick_cmd": f"./check {p} quick",
            "thorough_cmd": f"./check {p} thorough",
            "evidence_file": f"/verif/evidence/{p}.json",
            "replay_cmd_template": "./check replay {path}",
            "engine": "vsym",
            "level_claimed": {"category": "model_checking", "text": c["text"], "design_ref": "DESIGN.md §" + c["ref"]},
            "level_note": BASE_NOTE + c["note"],
            "technique": TECH,
        })
    m = {
        "version": 1,
        "setup_cmd": "cd /verif && ./setup.sh",
        "hooks": {
            "guard": "verif",
            "enable": "harness files under /verif/harness carry //go:build verif and are injected into package atree by build overlay (go/packages Overlay for the engine, go test -overlay for native replay); nothing is added to /repo",
            "baseline_off_cmd": "cd /repo && PATH=/root/go/pkg/mod/golang.org/toolchain@v0.0.1-go1.24.0.linux-amd64/bin:$PATH GOTOOLCHAIN=local GOFLAGS=-mod=mod GOPROXY=off go test -vet=off -count=1 -timeout 25m ./...",
            "source_commits": [],
            "add_only": True,
        },
        "engines": [{"name": "vsym", "path": "/verif/engine", "serves_properties": sorted(CHECKS),
                     "kind_free_text": "bounded symbolic executor for go/ssa (executes the real atree functions), forks per path, SMT (z3 5.1 / cvc5) decides branch feasibility and assertions; native replay of models"}],
        "checks": checks,
        "not_applicable": [{"property_id": p, "reason": NOT_YET} for p in props if p not in CHECKS],
        "notes": "See DESIGN.md. Exit codes: 0 = held on everything explored; 1 = VIOLATION (replayed natively); 2 = machinery broken/inconclusive (never a violation claim).",
    }
    json.dump(m, open("MANIFEST.json", "w"), indent=1)

if __name__ == "__main__":
    main()
