export PATH=/root/go/pkg/mod/golang.org/toolchain@v0.0.1-go1.24.0.linux-amd64/bin:$PATH
export GOTOOLCHAIN=local GOFLAGS=-mod=mod GOPROXY=off GOSUMDB=off
