#!/bin/sh
# usage: seedtest.sh <patch> <prop> [tier] -- applies a seeded patch to /repo, runs one check, reverts.
P=$1; ID=$2; TIER=${3:-quick}
git -C /repo apply "$P" || { echo "patch does not apply"; exit 3; }
# the evidence file describes runs on the unchanged tree: keep it
cp /verif/evidence/$ID.json /tmp/seedtest.evidence.$$ 2>/dev/null
cd /verif && timeout 1100 ./check $ID $TIER > /tmp/seedtest.out 2>&1; RC=$?
git -C /repo checkout -- .
[ -f /tmp/seedtest.evidence.$$ ] && mv /tmp/seedtest.evidence.$$ /verif/evidence/$ID.json
grep -E "^VIOLATION|^KNOWN|^BROKEN|^INCONCLUSIVE|^UNCONFIRMED|^check " /tmp/seedtest.out | cut -c1-220 | head -12
grep -E "^  harness=" /tmp/seedtest.out | cut -c1-200 | sort | uniq -c | head -6
echo "exit=$RC"
