#!/bin/sh
# usage: seedtest.sh <patch> <prop> [tier]
# Runs one check against a scratch worktree of /repo with a seeded change
# applied (VERIF_REPO), writing evidence/replays to a scratch directory
# (VERIF_OUT), so neither /repo nor /verif/evidence is touched. The worktree
# and its output are removed afterwards.
P=$(readlink -f "$1"); ID=$2; TIER=${3:-quick}
WT=$(mktemp -d /tmp/seedwt.XXXXXX); OUT=$(mktemp -d /tmp/seedout.XXXXXX)
rmdir "$WT"
git -C /repo worktree add -q --detach "$WT" HEAD || exit 3
# carry over uncommitted changes of /repo (normally none)
git -C /repo diff HEAD | git -C "$WT" apply --allow-empty 2>/dev/null
git -C "$WT" apply "$P" || { echo "patch does not apply"; git -C /repo worktree remove --force "$WT"; exit 3; }
cd /verif && VERIF_REPO="$WT" VERIF_OUT="$OUT" timeout 3000 ./check $ID $TIER > "$OUT/out.txt" 2>&1; RC=$?
grep -E "^VIOLATION|^KNOWN|^BROKEN|^INCONCLUSIVE|^UNCONFIRMED|^check " "$OUT/out.txt" | sed "s#$OUT#<out>#g" | cut -c1-220 | head -12
grep -E "^  harness=" "$OUT/out.txt" | cut -c1-200 | sort | uniq -c | head -6
echo "exit=$RC"
git -C /repo worktree remove --force "$WT"; rm -rf "$OUT"
